package main

import (
	"go/constant"
	"go/token"
	"go/types"
	"sort"
	"strings"

	"golang.org/x/tools/go/ssa"
)

// ---- C12-R1: a commit built from a caller's id list was played against a patch first.
//
// NewDeletesObject / NewAddVectorsObject / NewDeleteVectorsObject turn an id list into one action
// per id.  Replaying such a commit applies the actions one after the other, and the second
// delete (or vector add) of the same id is a write conflict - for every later reader of the
// branch.  Checking each id against the parent snapshot does not see that.  So in the function
// that calls the constructor each id must have gone through the matching Patch mutator (which
// records what the earlier ids did), and a failure must keep the constructor from being reached.
var c12ListCtors = map[string]string{
	"lake/commits.NewDeletesObject":       "(*lake/commits.Patch).DeleteObject",
	"lake/commits.NewAddVectorsObject":    "(*lake/commits.Patch).AddVector",
	"lake/commits.NewDeleteVectorsObject": "(*lake/commits.Patch).DeleteVector",
}

func runListCommitsPrePlayed(c *Ctx, rule string) {
	p := c.P
	c.Rule(rule, "a commit object built from a list of ids (deletes, vector adds, vector deletes) is constructed only after every id of that list went through the matching commits.Patch mutator with its error tested: the patch remembers the earlier ids, so a list naming an object twice is rejected instead of producing a commit whose replay fails for every later reader")
	sites := callSitesWhere(p, func(_ *ssa.CallCommon, name string) bool { return c12ListCtors[name] != "" })
	n := 0
	for _, s := range sites {
		if p.PkgOf(s.fn) == "lake/commits" {
			continue
		}
		n++
		ctor := calleeName(s.ci.Common())
		want := c12ListCtors[ctor]
		construct := ctor + " in " + constructName(s.fn)
		var ids ssa.Value
		for _, a := range s.ci.Common().Args {
			if strings.HasSuffix(namedOfSliceElem(a), "ksuid.KSUID") {
				ids = a
			}
		}
		if ids == nil {
			c.Undecided(rule, construct, "the id list argument was not found")
			continue
		}
		ctorBlock := s.ci.(ssa.Instruction).Block()
		ok := false
		for _, ci := range allCalls(s.fn) {
			if calleeName(ci.Common()) != want {
				continue
			}
			args := ci.Common().Args
			// the id handed to the mutator is an element of the list
			if !dependsOn(args[len(args)-1], func(v ssa.Value) bool { return sameVar(v, ids) }) {
				continue
			}
			v, isVal := ci.(ssa.Value)
			if !isVal {
				continue
			}
			for _, r := range *v.Referrers() {
				cmp, isCmp := r.(*ssa.BinOp)
				if !isCmp || !(isNilConst(cmp.X) || isNilConst(cmp.Y)) {
					continue
				}
				for _, rr := range *cmp.Referrers() {
					iff, isIf := rr.(*ssa.If)
					if !isIf {
						continue
					}
					errSucc := iff.Block().Succs[0]
					if cmp.Op == token.EQL {
						errSucc = iff.Block().Succs[1]
					}
					if !reachesBlock(errSucc, ctorBlock, nil) {
						ok = true
					}
				}
			}
		}
		if ok {
			c.OK(rule, construct, s.ci.Pos(), "each id passes "+want+" first; a failure does not reach the constructor")
		} else {
			c.Fail(rule, construct, s.ci.Pos(), "the ids are turned into actions without having been played one after the other against a commits.Patch ("+want+"): a list that names the same object twice passes the per-id check against the parent snapshot, the commit is accepted, and its replay fails (`delete of a non-existent data object: write conflict`) - the branch can no longer be read")
		}
	}
	if n < 3 {
		c.Undecided(rule, "commit objects built from id lists", "fewer than the three known constructor call sites found ("+sprint(n)+")")
	}
}

// namedOfSliceElem: "pkg.Name" of the element type of a slice-typed value, or "".
func namedOfSliceElem(v ssa.Value) string {
	if sl, ok := v.Type().Underlying().(*types.Slice); ok {
		return namedOf(sl.Elem())
	}
	return ""
}

// sameVar: a and b are the same value, or loads of the same captured / local variable.
func sameVar(a, b ssa.Value) bool {
	root := func(v ssa.Value) ssa.Value {
		if u, ok := v.(*ssa.UnOp); ok && u.Op == token.MUL {
			switch u.X.(type) {
			case *ssa.FreeVar, *ssa.Alloc:
				return u.X
			}
		}
		return v
	}
	return root(a) == root(b)
}

// ---- C06-T1: the numeric part of the value order compares exactly.
//
// Integers compare exactly with each other.  If an integer is converted to float64 to be
// compared with a float, distinct integers beyond 2^53 tie with the same float although they
// differ from each other: the relation is no longer transitive, i.e. not a preorder, and the
// result of a sort then depends on which pairs the algorithm happens to compare (in memory
// vs. merge of spilled runs).
func runNumericOrderExact(c *Ctx, rule string) {
	p := c.P
	c.Rule(rule, "in the numeric branch of the value order (expr.compareNumbers) no ordering is computed from an integer operand converted to float64: the conversion is not injective beyond 2^53, so two different integers tie with one float while comparing unequal with each other, and the order is not transitive")
	fn := p.Func("runtime/sam/expr.compareNumbers")
	cv := p.Func("runtime/sam/expr.compareValues")
	if fn == nil || cv == nil {
		c.Undecided(rule, "runtime/sam/expr.compareNumbers", "anchor does not resolve")
		return
	}
	used := false
	for _, ci := range allCalls(cv) {
		if ci.Common().StaticCallee() == fn {
			used = true
		}
	}
	if !used {
		c.Undecided(rule, "runtime/sam/expr.compareValues", "the value order no longer calls compareNumbers for numbers")
		return
	}
	lossy := func(v ssa.Value) bool {
		switch x := v.(type) {
		case *ssa.Convert:
			from, ok1 := x.X.Type().Underlying().(*types.Basic)
			to, ok2 := x.Type().Underlying().(*types.Basic)
			return ok1 && ok2 && from.Info()&types.IsInteger != 0 && to.Info()&types.IsFloat != 0
		case *ssa.Call:
			nm := calleeName(x.Common())
			return nm == "runtime/sam/expr.toFloat" || strings.HasPrefix(nm, "runtime/sam/expr/coerce.ToNumeric[float")
		}
		return false
	}
	n := 0
	for _, ci := range allCalls(fn) {
		nm := calleeName(ci.Common())
		if !strings.HasPrefix(nm, "cmp.Compare") {
			continue
		}
		n++
		args := ci.Common().Args
		for i, a := range args {
			if !dependsOn(a, lossy) {
				continue
			}
			side := "left"
			if i == 1 {
				side = "right"
			}
			c.Fail(rule, "runtime/sam/expr.compareNumbers compares the "+side+" integer operand as float64", ci.Pos(), "an integer is converted to float64 for the comparison: 9007199254740992 and 9007199254740993 both tie with 9007199254740992. while compare() orders them -1, so the value order is not transitive on mixed int/float keys beyond 2^53 and a sort of such keys depends on the pairs it happens to compare")
		}
	}
	if n < 3 {
		c.Undecided(rule, "runtime/sam/expr.compareNumbers", "fewer than three orderings found")
		return
	}
	c.OK(rule, "runtime/sam/expr.compareNumbers orderings", fn.Pos(), sprint(n)+" orderings examined")
}

// ---- C14-P2: a predicate delete keeps a value unless the predicate is Boolean true.
//
// The deleter rewrites an object with the values for which DeleteFilter's evaluator yields
// Boolean true.  "Removes exactly the values for which the predicate is true" therefore means:
// that evaluator's result is true iff NOT (type of P's result is bool AND its Bool() is true) -
// the complement of the test the scanners apply for `where`.  The Boolean function the survivor
// evaluator computes from those two atoms is extracted from its SSA form (constants, !, phis
// of short-circuit operators, branches) and its four-row truth table is compared.
func runDeleteSurvivorExact(c *Ctx, rule string) {
	p := c.P
	c.Rule(rule, "the evaluator returned by kernel.DeleteFilter.AsEvaluator yields Boolean true exactly when the predicate's result is not (of type bool and true): a value for which the predicate is false, an error (missing field, division by zero) or not a Boolean survives a predicate delete, as it is not selected by `where`")
	fn := p.Func("(*compiler/kernel.DeleteFilter).AsEvaluator")
	if fn == nil {
		c.Undecided(rule, "(*compiler/kernel.DeleteFilter).AsEvaluator", "anchor does not resolve")
		return
	}
	// the concrete evaluator type returned on the success path
	var ev *ssa.Function
	for _, b := range fn.Blocks {
		if len(b.Instrs) == 0 {
			continue
		}
		ret, ok := b.Instrs[len(b.Instrs)-1].(*ssa.Return)
		if !ok || len(ret.Results) != 2 || !isNilConst(ret.Results[1]) {
			continue
		}
		if mi, ok := ret.Results[0].(*ssa.MakeInterface); ok {
			ev = p.Func("(" + strings.TrimPrefix(types.TypeString(mi.X.Type(), nil), "github.com/brimdata/super/") + ").Eval")
			if ev == nil {
				ev = p.Func("(*" + namedOf(mi.X.Type()) + ").Eval")
			}
		}
	}
	construct := "(*compiler/kernel.DeleteFilter).AsEvaluator survivor predicate"
	if ev == nil {
		c.Fail(rule, construct, fn.Pos(), "the survivor evaluator is not a dedicated evaluator whose Boolean function can be read off: built from the language's own `!`/`or` it yields an error (not true) whenever the predicate is an error or not a Boolean, so `delete where 2/(k-1) > 1` also removes the value with k==1, which `where` does not select")
		return
	}
	// atoms: the predicate's result, its Type()==TypeBool test and its Bool()
	var predRes ssa.Value
	for _, ci := range allCalls(ev) {
		if cc := ci.Common(); cc.IsInvoke() && cc.Method.Name() == "Eval" {
			predRes, _ = ci.(ssa.Value)
		}
	}
	if predRes == nil {
		c.Undecided(rule, construct, "the survivor evaluator does not evaluate a predicate")
		return
	}
	isTypeTest := func(v ssa.Value, op token.Token) bool {
		b, ok := v.(*ssa.BinOp)
		if !ok || b.Op != op {
			return false
		}
		hasType, hasBool := false, false
		for _, x := range []ssa.Value{b.X, b.Y} {
			if call, ok := x.(*ssa.Call); ok && calleeName(call.Common()) == "(super.Value).Type" && len(call.Common().Args) == 1 && call.Common().Args[0] == predRes {
				hasType = true
			}
			if dependsOn(x, func(w ssa.Value) bool { g, ok := w.(*ssa.Global); return ok && g.Name() == "TypeBool" }) {
				hasBool = true
			}
		}
		return hasType && hasBool
	}
	isBoolCall := func(v ssa.Value) bool {
		call, ok := v.(*ssa.Call)
		return ok && calleeName(call.Common()) == "(super.Value).Bool" && len(call.Common().Args) == 1 && call.Common().Args[0] == predRes
	}
	for _, a := range []bool{false, true} {
		for _, b := range []bool{false, true} {
			got, ok := simulateBool(ev, func(v ssa.Value) (bool, bool) {
				switch {
				case isTypeTest(v, token.EQL):
					return a, true
				case isTypeTest(v, token.NEQ):
					return !a, true
				case isBoolCall(v):
					return b, true
				}
				return false, false
			})
			if !ok {
				c.Undecided(rule, construct, "the Boolean function of "+fnName(ev)+" could not be read off its SSA form")
				return
			}
			if want := !(a && b); got != want {
				c.Fail(rule, construct, ev.Pos(), "with the predicate's result "+map[bool]string{true: "of type bool", false: "not of type bool"}[a]+" and Bool()=="+map[bool]string{true: "true", false: "false"}[b]+" the survivor evaluator yields "+map[bool]string{true: "true (kept)", false: "false (deleted)"}[got]+": a predicate delete then removes a value for which the predicate is not true, or keeps one for which it is")
				return
			}
		}
	}
	c.OK(rule, construct, ev.Pos(), fnName(ev)+" computes !(type==bool && Bool()) (4-row truth table)")
}

// simulateBool follows the control flow of fn with the given atoms fixed and returns the
// Boolean carried by the returned zed.Value (NewBool(x), zed.True or zed.False).
func simulateBool(fn *ssa.Function, atom func(ssa.Value) (bool, bool)) (bool, bool) {
	if len(fn.Blocks) == 0 {
		return false, false
	}
	env := map[ssa.Value]bool{}
	var eval func(v ssa.Value) (bool, bool)
	eval = func(v ssa.Value) (bool, bool) {
		if k, ok := v.(*ssa.Const); ok && k.Value != nil && k.Value.Kind() == constant.Bool {
			return constant.BoolVal(k.Value), true
		}
		if b, ok := env[v]; ok {
			return b, true
		}
		if b, ok := atom(v); ok {
			return b, true
		}
		if u, ok := v.(*ssa.UnOp); ok && u.Op == token.NOT {
			if x, ok := eval(u.X); ok {
				return !x, true
			}
		}
		return false, false
	}
	cur, prev := fn.Blocks[0], (*ssa.BasicBlock)(nil)
	for steps := 0; steps < 64; steps++ {
		for _, in := range cur.Instrs {
			switch x := in.(type) {
			case *ssa.Phi:
				for i, pb := range cur.Preds {
					if pb == prev {
						if b, ok := eval(x.Edges[i]); ok {
							env[x] = b
						}
					}
				}
			case *ssa.If:
				b, ok := eval(x.Cond)
				if !ok {
					return false, false
				}
				prev = cur
				if b {
					cur = cur.Succs[0]
				} else {
					cur = cur.Succs[1]
				}
			case *ssa.Jump:
				prev = cur
				cur = cur.Succs[0]
			case *ssa.Return:
				if len(x.Results) != 1 {
					return false, false
				}
				switch r := x.Results[0].(type) {
				case *ssa.Call:
					if calleeName(r.Common()) == "super.NewBool" {
						return eval(r.Common().Args[0])
					}
				case *ssa.UnOp:
					if g, ok := r.X.(*ssa.Global); ok && r.Op == token.MUL {
						switch g.Name() {
						case "True":
							return true, true
						case "False":
							return false, true
						}
					}
				}
				return false, false
			case *ssa.Panic:
				return false, false
			}
		}
	}
	return false, false
}

// ---- C15-R1: a delete on the child is never forgotten by the merge.
//
// commits.Diff turns the child's patch into the merge commit: it adds child.diff and deletes
// child.deletedObjects.  "Minus everything the child deleted since the common ancestor" needs
// every successful Patch.DeleteObject to leave a trace in a field Diff reads.  Merge commits have
// one parent, so the ancestor does not advance: an object the child added, merged, and deleted
// later is in the parent but, if the delete merely cancels the add inside the patch, in no field
// of the child's patch.
func runPatchDeletesVisibleToDiff(c *Ctx, rule string) {
	p := c.P
	c.Rule(rule, "every path of commits.Patch.DeleteObject that can return nil stores into a field of the patch that commits.Diff reads from the child patch: a delete that only cancels an add made earlier in the same patch is invisible to the merge, so an object the child added, merged and later deleted stays in the parent")
	del := p.Func("(*lake/commits.Patch).DeleteObject")
	diff := p.Func("lake/commits.Diff")
	if del == nil || diff == nil || len(diff.Params) < 2 {
		c.Undecided(rule, "(*lake/commits.Patch).DeleteObject", "anchors do not resolve")
		return
	}
	child := diff.Params[1]
	read := map[int]bool{}
	for _, b := range diff.Blocks {
		for _, in := range b.Instrs {
			if fa, ok := in.(*ssa.FieldAddr); ok && fa.X == child {
				read[fa.Field] = true
			}
		}
	}
	if len(read) == 0 {
		c.Undecided(rule, "lake/commits.Diff", "Diff reads no field of the child patch")
		return
	}
	var recording []*ssa.BasicBlock
	for _, b := range del.Blocks {
		for _, in := range b.Instrs {
			st, ok := in.(*ssa.Store)
			if !ok {
				continue
			}
			if fa, ok := st.Addr.(*ssa.FieldAddr); ok && fa.X == del.Params[0] && read[fa.Field] && fieldName(fa.X.Type(), fa.Field) != "diff" {
				recording = append(recording, b)
			}
		}
	}
	ei := errIndex(del.Signature)
	n, bad := 0, 0
	for _, b := range del.Blocks {
		if len(b.Instrs) == 0 {
			continue
		}
		ret, ok := b.Instrs[len(b.Instrs)-1].(*ssa.Return)
		if !ok {
			continue
		}
		// a constant error (the load of a package-level error such as ErrNotFound) is a refused delete
		if u, ok := returnOperand(ret, ei).(*ssa.UnOp); ok {
			if _, isGlobal := u.X.(*ssa.Global); isGlobal {
				continue
			}
		}
		n++
		recorded := false
		for _, rb := range recording {
			if rb == b || rb.Dominates(b) {
				recorded = true
			}
		}
		if !recorded {
			bad++
			c.Fail(rule, "(*lake/commits.Patch).DeleteObject retracts an object the patch added without recording the delete", ret.Pos(), "this return can succeed without a store into a field commits.Diff reads from the child patch: the delete of an object the patch itself added just cancels the add, so after `child: load X; merge; delete X; load Y; merge` the parent still holds X although the child deleted it since the common ancestor")
		}
	}
	if n == 0 {
		c.Undecided(rule, "(*lake/commits.Patch).DeleteObject", "no successful return found")
		return
	}
	if bad == 0 {
		c.OK(rule, "(*lake/commits.Patch).DeleteObject", del.Pos(), sprint(n)+" successful returns, each after recording the delete in a field Diff reads")
	}
}

// ---- C14-W2: the load writer keeps one object write in flight.
//
// Writer.newObject appends to w.objects and hands the write goroutine a pointer into that slice;
// the goroutine fills in the object's count, size and key range when the write completes.  A
// second goroutine appending meanwhile reallocates the slice, and the first one's metadata lands
// in the discarded array: the commit then records count 0, and a predicate delete that compares
// survivors with object.Count keeps values it should remove.  The buffer channel is the token
// that serialises the writes, so exactly one token may ever exist.
func runLoadWriterSingleFlight(c *Ctx, rule string) {
	p := c.P
	c.Rule(rule, "lake.Writer hands each write goroutine a pointer into the w.objects slice it appends to, so at most one such goroutine may run: exactly one token is put into Writer.buffer at construction, a write goroutine is started only after a token was received, and it returns at most one")
	newObj := p.Func("(*lake.Writer).newObject")
	nw := p.Func("lake.NewWriter")
	flip := p.Func("(*lake.Writer).flipBuffers")
	if newObj == nil || nw == nil || flip == nil {
		c.Undecided(rule, "lake.Writer", "anchors newObject/NewWriter/flipBuffers do not resolve")
		return
	}
	// does newObject still return an interior pointer of a slice field it appends to?
	interior := false
	for _, b := range newObj.Blocks {
		for _, in := range b.Instrs {
			ret, ok := in.(*ssa.Return)
			if !ok || len(ret.Results) != 1 {
				continue
			}
			if ia, ok := ret.Results[0].(*ssa.IndexAddr); ok {
				if dependsOn(ia.X, func(v ssa.Value) bool { fa, ok := v.(*ssa.FieldAddr); return ok && fa.X == newObj.Params[0] }) {
					interior = true
				}
			}
		}
	}
	if !interior {
		c.OK(rule, "lake.Writer object metadata", newObj.Pos(), "newObject no longer hands out a pointer into a slice it appends to; concurrent writes do not alias")
		return
	}
	isBufferChan := func(v ssa.Value) bool {
		return dependsOn(v, func(w ssa.Value) bool {
			fa, ok := w.(*ssa.FieldAddr)
			return ok && fieldName(fa.X.Type(), fa.Field) == "buffer"
		})
	}
	// tokens created at construction
	var mk *ssa.MakeChan
	for _, b := range nw.Blocks {
		for _, in := range b.Instrs {
			if m, ok := in.(*ssa.MakeChan); ok {
				for _, r := range *m.Referrers() {
					if st, ok := r.(*ssa.Store); ok && st.Val == m {
						if fa, ok := st.Addr.(*ssa.FieldAddr); ok && fieldName(fa.X.Type(), fa.Field) == "buffer" {
							mk = m
						}
					}
				}
			}
		}
	}
	if mk == nil {
		c.Undecided(rule, "lake.NewWriter", "the channel stored in Writer.buffer was not found")
		return
	}
	tokens, looped := 0, false
	for _, b := range nw.Blocks {
		for _, in := range b.Instrs {
			if s, ok := in.(*ssa.Send); ok && s.Chan == mk {
				tokens++
				if inCycle(nw, s) {
					looped = true
				}
			}
		}
	}
	construct := "lake.Writer.buffer write token"
	if tokens != 1 || looped {
		c.Fail(rule, construct, mk.Pos(), "NewWriter puts "+map[bool]string{true: "a loop of tokens", false: sprint(tokens) + " tokens"}[looped]+" into Writer.buffer: with more than one write goroutine in flight, newObject's append for the next object reallocates w.objects while the previous write still holds a pointer into the old array, so that object's count, size and key range are lost (the commit records count 0 and `delete where` then keeps values it should remove)")
		return
	}
	// a write goroutine starts only after a token was taken, and returns at most one
	ok := true
	why := ""
	n := 0
	for _, ci := range allCalls(flip) {
		if calleeName(ci.Common()) != "(*golang.org/x/sync/errgroup.Group).Go" {
			if _, isGo := ci.(*ssa.Go); !isGo {
				continue
			}
		}
		n++
		taken := false
		for _, b := range flip.Blocks {
			for _, in := range b.Instrs {
				if u, isRecv := in.(*ssa.UnOp); isRecv && u.Op == token.ARROW && isBufferChan(u.X) && dominates(u, ci.(ssa.Instruction)) {
					taken = true
				}
			}
		}
		if !taken {
			ok, why = false, "a write goroutine is started without first receiving the token from Writer.buffer"
		}
	}
	for _, an := range flip.AnonFuncs {
		sends := 0
		for _, b := range an.Blocks {
			for _, in := range b.Instrs {
				if s, isSend := in.(*ssa.Send); isSend && isBufferChan(s.Chan) {
					sends++
					if inCycle(an, s) {
						ok, why = false, "the write goroutine returns tokens in a loop"
					}
				}
			}
		}
		if sends > 1 {
			ok, why = false, "the write goroutine can return more than one token"
		}
	}
	switch {
	case n == 0:
		c.Undecided(rule, construct, "no write goroutine found in flipBuffers")
	case !ok:
		c.Fail(rule, construct, flip.Pos(), why+": two object writes can then be in flight and newObject's append invalidates the pointer the earlier one writes its metadata through")
	default:
		c.OK(rule, construct, mk.Pos(), "one token at construction; a write starts after receiving it and returns at most one")
	}
}

// ---- C06-H1: the spill merge restores its heap after every advance of the head run.
//
// MergeSort.Less is the only place that knows the full order (comparator, then run ordinal for
// stability).  After the head run advanced to its next record the heap must be re-established
// with heap.Fix (or heap.Pop at end of run) on every path: a shortcut that keeps the head in
// place when it "still compares <=" ignores the ordinal tie-break and emits a later run's record
// before equal-keyed records of earlier runs.
func runSpillMergeAlwaysFixes(c *Ctx, rule string) {
	p := c.P
	c.Rule(rule, "in spill.MergeSort.Read every path from the advance of the head run (runs[0].read) to the successful return or the next advance passes through heap.Fix or heap.Pop: the heap order (comparator, then run ordinal) is decided by MergeSort.Less alone")
	fn := p.Func("(*runtime/sam/op/spill.MergeSort).Read")
	if fn == nil {
		c.Undecided(rule, "(*runtime/sam/op/spill.MergeSort).Read", "anchor does not resolve")
		return
	}
	var adv ssa.Instruction
	for _, ci := range allCalls(fn) {
		if calleeName(ci.Common()) == "(*runtime/sam/op/spill.peeker).read" {
			adv = ci.(ssa.Instruction)
		}
	}
	if adv == nil {
		c.Undecided(rule, "(*runtime/sam/op/spill.MergeSort).Read", "the advance of the head run (peeker.read) was not found")
		return
	}
	ei := errIndex(fn.Signature)
	isFix := func(in ssa.Instruction) bool {
		ci, ok := in.(ssa.CallInstruction)
		if !ok {
			return false
		}
		nm := calleeName(ci.Common())
		return nm == "container/heap.Fix" || nm == "container/heap.Pop" || nm == "container/heap.Init"
	}
	target := func(in ssa.Instruction) bool {
		if in == adv {
			return true // the next advance
		}
		ret, ok := in.(*ssa.Return)
		return ok && ei >= 0 && isNilConst(returnOperand(ret, ei)) && !isNilConst(ret.Results[0])
	}
	if bad := reachAvoiding(fn, adv, isFix, target); bad != nil {
		c.Fail(rule, "(*runtime/sam/op/spill.MergeSort).Read heap restored after advance", bad.Pos(), "a path from the advance of the head run reaches this point without heap.Fix/heap.Pop: the head run keeps the top slot on the strength of a comparison that ignores the run-ordinal tie-break, so a record of a later run is emitted before equal-keyed records of an earlier run - a spilled sort is no longer stable and differs from the in-memory sort")
		return
	}
	c.OK(rule, "(*runtime/sam/op/spill.MergeSort).Read heap restored after advance", adv.Pos(), "every path passes heap.Fix or heap.Pop")
}

// ---- C15-P1: a patch never holds an object of its base in its diff.
//
// commits.Diff decides what a merge adds by looking at child.diff and what it deletes by looking
// at child.deletedObjects; an object of the base that the patch deleted and added back must be in
// neither.  Patch.AddDataObject therefore inserts into p.diff only for an object that is absent
// from the *base* (testing the patched view instead hides the base objects the patch deleted, so
// a delete followed by its revert leaves the object in both lists and the merge deletes it from
// the parent).
func runPatchDiffDisjointFromBase(c *Ctx, rule string) {
	p := c.P
	c.Rule(rule, "commits.Patch.AddDataObject inserts into the patch's diff only on the not-exists edge of a lookup in the patch's base (not in the patched view): an object of the base that was deleted and added back is then in neither diff nor deletedObjects, which is what commits.Diff relies on")
	fn := p.Func("(*lake/commits.Patch).AddDataObject")
	if fn == nil {
		c.Undecided(rule, "(*lake/commits.Patch).AddDataObject", "anchor does not resolve")
		return
	}
	var ins ssa.CallInstruction
	for _, ci := range allCalls(fn) {
		if calleeName(ci.Common()) == "(*lake/commits.Snapshot).AddDataObject" {
			ins = ci
		}
	}
	if ins == nil {
		c.Undecided(rule, "(*lake/commits.Patch).AddDataObject", "the insertion into the diff snapshot was not found")
		return
	}
	ok := false
	for _, ci := range allCalls(fn) {
		nm := calleeName(ci.Common())
		if nm != "lake/commits.Exists" && !strings.HasSuffix(nm, ".Lookup") && !strings.HasSuffix(nm, ".Exists") {
			continue
		}
		args := ci.Common().Args
		view := ci.Common().Value
		if !ci.Common().IsInvoke() && len(args) > 0 {
			view = args[0]
		}
		if view == nil {
			continue
		}
		onBase := dependsOn(view, func(v ssa.Value) bool {
			fa, isFA := v.(*ssa.FieldAddr)
			return isFA && fa.X == fn.Params[0] && fieldName(fa.X.Type(), fa.Field) == "base"
		})
		if !onBase {
			continue
		}
		if v, isVal := ci.(ssa.Value); isVal && isBoolType(v.Type()) && falseEdgeDominatesOrSelf(v, ins.(ssa.Instruction).Block()) {
			ok = true
		}
	}
	construct := "(*lake/commits.Patch).AddDataObject inserts into diff"
	if ok {
		c.OK(rule, construct, ins.Pos(), "only on the not-exists edge of a lookup in p.base")
	} else {
		c.Fail(rule, construct, ins.Pos(), "the insertion into p.diff is not guarded by the absence of the object from the patch's base: with the patched view as the guard, an object the patch deleted from the base looks absent, is inserted into diff while it stays in deletedObjects, and a merge of `delete X; revert` deletes X from the parent although the child never net-deleted it")
	}
}

func isBoolType(t types.Type) bool {
	b, ok := t.Underlying().(*types.Basic)
	return ok && b.Kind() == types.Bool
}

// ---- C20-X1: fuse reads its spill back in the context the fused type lives in.
//
// The shaper compares types by identity (bestUnionTag, shaperType).  The fused type is built in
// f.zctx from the types of the values as they were written; values decoded from the spill in any
// other context carry different type pointers for every complex or named type, so they are not
// recognised as members of the fused union and come out unshaped - only when the input spilled.
func runFuseSpillSameContext(c *Ctx, rule string) {
	p := c.P
	c.Rule(rule, "in fuse.Fuser.Read the spill file is rewound with the same type context (the same field of the Fuser) that the shaper for the fused type is built with: types are compared by identity, so values decoded in another context are not recognised as members of the fused type")
	fn := p.Func("(*runtime/sam/op/fuse.Fuser).Read")
	if fn == nil {
		c.Undecided(rule, "(*runtime/sam/op/fuse.Fuser).Read", "anchor does not resolve")
		return
	}
	var shaperCtx, rewindCtx ssa.Value
	var rewind ssa.CallInstruction
	for _, ci := range allCalls(fn) {
		switch nm := calleeName(ci.Common()); {
		case nm == "runtime/sam/expr.NewConstShaper":
			shaperCtx = ci.Common().Args[0]
		case strings.HasSuffix(nm, ").Rewind") && strings.Contains(nm, "spill"):
			args := ci.Common().Args
			rewindCtx = args[len(args)-1]
			rewind = ci
		}
	}
	if shaperCtx == nil || rewind == nil {
		c.Undecided(rule, "(*runtime/sam/op/fuse.Fuser).Read", "the shaper construction or the spill rewind was not found")
		return
	}
	a, b := fieldPath(shaperCtx), fieldPath(rewindCtx)
	construct := "(*runtime/sam/op/fuse.Fuser).Read spill rewind context"
	if a != "" && a == b {
		c.OK(rule, construct, rewind.Pos(), "rewound with "+b+", the shaper's context")
	} else {
		c.Fail(rule, construct, rewind.Pos(), "the spill is decoded in a context other than the one the fused type and its shaper live in ("+a+"): complex and named types of spilled values are then different pointers, the shaper does not recognise them as members of the fused union, and `fuse` over {a:[1,2]} {a:\"s\"} returns {a:[1,2]} unshaped - but only when the input exceeded the memory limit")
	}
}

// ---- C02-S2: only types whose value text determines them are self-describing.
//
// A self-describing named type is written in the short form "(=name)": the reader must derive the
// whole type from the value text.  That holds for the four container kinds (their elements carry
// their own decorators) and for a named type over one of them.  It does not hold for union and enum
// types (the value shows one member) nor for error types: Formatter.formatValue prints the payload
// of an error without a decorator because the error's full type decorator is what carries the
// payload type - `error([]([int32]))(=failed)` would print as `error([])(=failed)`.
func runSelfDescribingKinds(c *Ctx, rule string) {
	p := c.P
	c.Rule(rule, "zson.SelfDescribing inspects only record, array, set, map and named types, and its recursion descends only from a named type to its underlying type: union, enum and error types are not derivable from a value's text (an error's payload is printed without its decorator), so they must take the long `(name=type)` form")
	fn := p.Func("zson.SelfDescribing")
	if fn == nil {
		c.Undecided(rule, "zson.SelfDescribing", "anchor does not resolve")
		return
	}
	allowed := map[string]bool{"super.TypeRecord": true, "super.TypeArray": true, "super.TypeSet": true, "super.TypeMap": true, "super.TypeNamed": true}
	n := 0
	bad := false
	var namedAssert *ssa.TypeAssert
	for _, b := range fn.Blocks {
		for _, in := range b.Instrs {
			ta, ok := in.(*ssa.TypeAssert)
			if !ok {
				continue
			}
			n++
			nm := namedOf(ta.AssertedType)
			if nm == "super.TypeNamed" && ta.X == fn.Params[0] {
				namedAssert = ta
			}
			if !allowed[nm] || ta.X != fn.Params[0] {
				bad = true
				c.Fail(rule, "zson.SelfDescribing inspects "+nm, ta.Pos(), "SelfDescribing looks for a "+nm+" (below its argument or as a new kind): a type of that kind is not derivable from the text of its value - for an error the payload is printed without a decorator - so the short `(=name)` form loses the payload type: error([]([int32]))(=failed) is written as error([])(=failed) and reads back as failed=error([null])")
			}
		}
	}
	for _, ci := range allCalls(fn) {
		if ci.Common().StaticCallee() != fn {
			continue
		}
		arg := ci.Common().Args[0]
		okArg := false
		if namedAssert != nil {
			okArg = dependsOn(arg, func(v ssa.Value) bool {
				fa, isFA := v.(*ssa.FieldAddr)
				if !isFA || fieldName(fa.X.Type(), fa.Field) != "Type" {
					return false
				}
				return dependsOn(fa.X, func(w ssa.Value) bool { return w == namedAssert })
			})
		}
		if !okArg {
			bad = true
			c.Fail(rule, "zson.SelfDescribing recursion", ci.Pos(), "the recursion does not descend from a named type to its own underlying type")
		}
	}
	switch {
	case n < 2:
		c.Undecided(rule, "zson.SelfDescribing", "the type dispatch was not found")
	case !bad:
		c.OK(rule, "zson.SelfDescribing kinds", fn.Pos(), sprint(n)+" type tests, all on the argument and on container or named types")
	}
}

// ---- C01-U1: strings decoded from a frame own their bytes.
//
// The ZNG type decoder reads field names, enum symbols and type names out of the frame buffer,
// which is the peeker's read buffer or a pooled buffer that is reused for later frames.  The
// strings become part of the reader's types and outlive the buffer, so they must be copies:
// a string made with byteconv.UnsafeString (which aliases the bytes) may only be consumed on the
// spot (parsed), never returned, stored or handed on.
func runDecodedStringsOwnBytes(c *Ctx, rule string) {
	p := c.P
	c.Rule(rule, "in package zngio a string that aliases buffer bytes (byteconv.UnsafeString) is never returned, stored or passed on: names read from a types frame become part of types that outlive the frame's buffer, and slices.Clone of a field list copies string headers, not bytes")
	n := 0
	for _, fn := range p.FuncsIn("zio/zngio") {
		for _, ci := range allCalls(fn) {
			if calleeName(ci.Common()) != "pkg/byteconv.UnsafeString" {
				continue
			}
			n++
			v, ok := ci.(ssa.Value)
			if !ok {
				continue
			}
			construct := "aliasing string in " + constructName(fn)
			if sink := escapesLocally(v); sink != nil {
				c.Fail(rule, construct, ci.Pos(), "the string made here aliases the frame buffer and escapes ("+p.Pos(sink.Pos())+"): once the peeker refills or the pooled buffer is recycled, field names / enum symbols / type names of types decoded earlier change under the reader, and a later typedef that nests such a type is translated with garbage names")
			} else {
				c.OK(rule, construct, ci.Pos(), "consumed on the spot")
			}
		}
	}
	if n == 0 {
		c.OK(rule, "aliasing strings in zio/zngio", token.NoPos, "no byteconv.UnsafeString in the package: every decoded string is a copy")
	}
}

// escapesLocally: v (or a value derived from it by phi/slice/conversion) is returned, stored,
// put into a collection or passed to a function other than a parser.
func escapesLocally(v ssa.Value) ssa.Instruction {
	seen := map[ssa.Value]bool{}
	var visit func(v ssa.Value) ssa.Instruction
	visit = func(v ssa.Value) ssa.Instruction {
		if seen[v] || v.Referrers() == nil {
			return nil
		}
		seen[v] = true
		for _, r := range *v.Referrers() {
			switch x := r.(type) {
			case *ssa.Return, *ssa.Store, *ssa.MapUpdate, *ssa.Send, *ssa.MakeInterface, *ssa.MakeClosure:
				return r
			case *ssa.Phi, *ssa.Slice, *ssa.ChangeType, *ssa.Convert:
				if s := visit(x.(ssa.Value)); s != nil {
					return s
				}
			case ssa.CallInstruction:
				nm := calleeName(x.Common())
				if strings.HasPrefix(nm, "strconv.") || strings.HasPrefix(nm, "pkg/byteconv.Parse") || strings.HasPrefix(nm, "strings.") || nm == "len" {
					continue
				}
				if _, isBuiltin := x.Common().Value.(*ssa.Builtin); isBuiltin && x.Common().Value.Name() == "len" {
					continue
				}
				return r
			}
		}
		return nil
	}
	return visit(v)
}

// ---- C03-F1: the vector cache's flattened nulls are computed once.
//
// nulls.flatten folds the node's own null vector into its parent's and then drops the local
// copy (n.local = nil).  A cached object is fetched again by later queries, so from the second
// call on the only record of this node's nulls is n.flat: the function must consult n.flat
// before it looks at n.local, otherwise a node that had nulls of its own looks null-free and a
// null record comes back as a record of null fields.
func runFlattenedNullsCached(c *Ctx, rule string) {
	p := c.P
	c.Rule(rule, "vcache.nulls.flatten reads n.local only where n.flat was found nil, as long as it discards n.local after folding it: the second fetch of a cached object must get the flattened nulls computed by the first")
	fn := p.Func("(*runtime/vcache.nulls).flatten")
	if fn == nil {
		c.Undecided(rule, "(*runtime/vcache.nulls).flatten", "anchor does not resolve")
		return
	}
	fieldOf := func(v ssa.Value) string {
		if fa, ok := v.(*ssa.FieldAddr); ok && fa.X == fn.Params[0] {
			return fieldName(fa.X.Type(), fa.Field)
		}
		return ""
	}
	discards := false
	var flatTests []*ssa.BinOp
	var localLoads []*ssa.UnOp
	for _, b := range fn.Blocks {
		for _, in := range b.Instrs {
			switch x := in.(type) {
			case *ssa.Store:
				if fieldOf(x.Addr) == "local" && isNilConst(x.Val) {
					discards = true
				}
			case *ssa.UnOp:
				if x.Op == token.MUL && fieldOf(x.X) == "local" {
					localLoads = append(localLoads, x)
				}
			case *ssa.BinOp:
				for _, pair := range [][2]ssa.Value{{x.X, x.Y}, {x.Y, x.X}} {
					if u, ok := pair[0].(*ssa.UnOp); ok && u.Op == token.MUL && fieldOf(u.X) == "flat" && isNilConst(pair[1]) {
						flatTests = append(flatTests, x)
					}
				}
			}
		}
	}
	construct := "(*runtime/vcache.nulls).flatten consults the cached result first"
	if !discards {
		c.OK(rule, construct, fn.Pos(), "flatten keeps n.local, so recomputing is harmless")
		return
	}
	if len(localLoads) == 0 {
		c.Undecided(rule, construct, "no read of n.local found")
		return
	}
	for _, ld := range localLoads {
		ok := false
		for _, t := range flatTests {
			switch t.Op {
			case token.NEQ:
				ok = ok || falseEdgeDominatesOrSelf(t, ld.Block())
			case token.EQL:
				ok = ok || trueEdgeDominatesOrSelf(t, ld.Block())
			}
		}
		if !ok {
			c.Fail(rule, construct, ld.Pos(), "n.local is read on a path where n.flat may already hold the result: flatten sets n.local to nil after the first call, so on the second fetch of a cached object this node seems to have no nulls of its own and null records / arrays come back as records of null fields / empty arrays")
			return
		}
	}
	c.OK(rule, construct, fn.Pos(), sprint(len(localLoads))+" reads of n.local, all after n.flat was found nil")
}

// ---- C09-S1: the vector sum adds integers as integers.
//
// The sequential sum() of an integer column is exact (64-bit integer arithmetic).  The vector
// operator runs per leg and per object; if an integer value is converted to floating point on
// its way into the accumulator, totals (or value x count products of const/dict encodings)
// beyond 2^53 are rounded and `sum(n)` changes once the pool's objects have vector copies.
func runVectorSumExact(c *Ctx, rule string) {
	p := c.P
	c.Rule(rule, "in vam/op.Sum.update no value stored into the accumulator was converted from an integer to floating point: integer sums stay exact, as in the sequential runtime")
	fn := p.Func("(*runtime/vam/op.Sum).update")
	if fn == nil {
		c.Undecided(rule, "(*runtime/vam/op.Sum).update", "anchor does not resolve")
		return
	}
	intToFloat := func(v ssa.Value) bool {
		x, ok := v.(*ssa.Convert)
		if !ok {
			return false
		}
		from, ok1 := x.X.Type().Underlying().(*types.Basic)
		to, ok2 := x.Type().Underlying().(*types.Basic)
		return ok1 && ok2 && from.Info()&types.IsInteger != 0 && to.Info()&types.IsFloat != 0
	}
	n := 0
	for _, b := range fn.Blocks {
		for _, in := range b.Instrs {
			st, ok := in.(*ssa.Store)
			if !ok {
				continue
			}
			fa, ok := st.Addr.(*ssa.FieldAddr)
			if !ok || fa.X != fn.Params[0] {
				continue
			}
			n++
			if dependsOn(st.Val, intToFloat) {
				c.Fail(rule, "(*runtime/vam/op.Sum).update accumulates an integer as floating point", st.Pos(), "an integer is converted to floating point before it is added to the accumulator: sums (or value x count of const/dict vectors) beyond 2^53 are rounded per leg, so `sum(n)` over large integers returns 18014398509481984 with vectors where the sequential runtime returns 18014398509481988")
				return
			}
		}
	}
	if n < 3 {
		c.Undecided(rule, "(*runtime/vam/op.Sum).update", "fewer than three accumulator updates found")
		return
	}
	c.OK(rule, "(*runtime/vam/op.Sum).update accumulator updates", fn.Pos(), sprint(n)+" stores, none fed by an int-to-float conversion")
}

// ---- C12-M1: a keyed journal update that replaces an entry is conditioned on the entry it read.
//
// pools.Store and branches.Store look an entry up (by id) and then ask the journal store to move,
// delete or update the entry under the key they read.  The two steps are separate journal loads;
// another client can re-bind the key in between (rename the pool away and create a new pool under
// the old name).  The journal operation therefore carries a Constraint that is evaluated on the
// entry found under the key, inside the commit attempt: Move/Delete/Update all take one, evaluate it
// before they succeed, and no caller passes nil.
func runKeyedUpdatesConstrained(c *Ctx, rule string) {
	p := c.P
	c.Rule(rule, "journal.Store.Move, Delete and Update take a Constraint, evaluate it on the entry currently bound to the key inside the commit attempt, and every caller outside the journal package passes a non-nil one: a rename, removal or branch update acts on the entry the caller looked up, not on whatever another client bound to that key meanwhile")
	for _, name := range []string{"Move", "Delete", "Update"} {
		fn := p.Func("(*lake/journal.Store)." + name)
		construct := "(*lake/journal.Store)." + name + " is conditional"
		if fn == nil {
			c.Undecided(rule, construct, "anchor does not resolve")
			continue
		}
		ci := -1
		for i, prm := range fn.Params {
			if namedOf(prm.Type()) == "lake/journal.Constraint" {
				ci = i
			}
		}
		if ci < 0 {
			c.Fail(rule, construct, fn.Pos(), "the operation has no Constraint parameter: it can only test that the key is bound, not that it is still bound to the entry the caller read - pools.Rename(id1, \"b\") racing with another client's rename of id1 and creation of a new pool under the old name deletes that new pool's entry and lists id1 twice")
			continue
		}
		// the constraint is invoked somewhere below (in the commit closure or a helper it is passed to)
		if constraintInvoked(p, fn, fn.Params[ci], 0) {
			c.OK(rule, construct, fn.Pos(), "the constraint is evaluated inside the commit attempt")
		} else {
			c.Fail(rule, construct, fn.Pos(), "the Constraint parameter is never evaluated")
		}
	}
	n := 0
	for _, s := range callSitesWhere(p, func(_ *ssa.CallCommon, name string) bool {
		return name == "(*lake/journal.Store).Move" || name == "(*lake/journal.Store).Delete" || name == "(*lake/journal.Store).Update"
	}) {
		if p.PkgOf(s.fn) == "lake/journal" {
			continue
		}
		n++
		construct := calleeName(s.ci.Common()) + " called from " + constructName(s.fn)
		var carg ssa.Value
		for _, a := range s.ci.Common().Args {
			if namedOf(a.Type()) == "lake/journal.Constraint" {
				carg = a
			}
		}
		switch {
		case carg == nil:
			c.Fail(rule, construct, s.ci.Pos(), "no constraint is passed: the update is applied to whatever entry is bound to the key at commit time")
		case isNilConst(stripConv(carg)):
			c.Fail(rule, construct, s.ci.Pos(), "a nil constraint is passed: the update is applied to whatever entry is bound to the key at commit time")
		default:
			c.OK(rule, construct, s.ci.Pos(), "non-nil constraint")
		}
	}
	if n < 4 {
		c.Undecided(rule, "keyed journal updates", "fewer than the four known call sites found ("+sprint(n)+")")
	}
}

// constraintInvoked: v (a func value) is called in fn, in a closure of fn that captures it, or in a
// function it is passed to (depth-limited).
func constraintInvoked(p *Prog, fn *ssa.Function, v ssa.Value, depth int) bool {
	if depth > 3 || v.Referrers() == nil {
		return false
	}
	for _, r := range *v.Referrers() {
		switch x := r.(type) {
		case ssa.CallInstruction:
			if x.Common().Value == v {
				return true
			}
			if g := x.Common().StaticCallee(); g != nil {
				for i, a := range x.Common().Args {
					if a == v && i < len(g.Params) && constraintInvoked(p, g, g.Params[i], depth+1) {
						return true
					}
				}
			}
		case *ssa.MakeClosure:
			g := x.Fn.(*ssa.Function)
			for i, b := range x.Bindings {
				if b == v && i < len(g.FreeVars) && constraintInvoked(p, g, g.FreeVars[i], depth+1) {
					return true
				}
			}
		case *ssa.Store:
			// captured by reference: the closure loads it from the cell
			if a, ok := x.Addr.(*ssa.Alloc); ok && x.Val == v {
				for _, rr := range *a.Referrers() {
					if mc, ok := rr.(*ssa.MakeClosure); ok {
						g := mc.Fn.(*ssa.Function)
						for i, b := range mc.Bindings {
							if b == a && i < len(g.FreeVars) {
								for _, ld := range *g.FreeVars[i].Referrers() {
									if u, ok := ld.(*ssa.UnOp); ok && constraintInvoked(p, g, u, depth+1) {
										return true
									}
								}
							}
						}
					}
				}
			}
		case *ssa.Phi, *ssa.ChangeType, *ssa.UnOp:
			if constraintInvoked(p, fn, x.(ssa.Value), depth+1) {
				return true
			}
		}
	}
	return false
}

// ---- C12-F2: a journal snapshot that is ahead of the head just read is not used.
//
// Store.load reads HEAD first and the snapshot afterwards.  Other clients may have committed and
// written a newer snapshot in between; its position is then beyond the head this load works
// with.  Replaying "from the snapshot to head" reads nothing, the newer table is installed under
// the older position, and (head - at underflows) it is stored as *the* snapshot for that older
// position - every later load replays entries on top of a table that already contains them,
// which fails on an update of a key deleted in that range: the journal is unreadable.
func runSnapshotNotAheadOfHead(c *Ctx, rule string) {
	p := c.P
	c.Rule(rule, "journal.Store.load compares the position of the snapshot it read with the head it read before, ahead of replaying and of storing a snapshot: a snapshot written by another client after this load read HEAD is not installed under (or stored for) the older position")
	fn := p.Func("(*lake/journal.Store).load")
	if fn == nil {
		c.Undecided(rule, "(*lake/journal.Store).load", "anchor does not resolve")
		return
	}
	var head, snap ssa.Value
	var open ssa.Instruction
	for _, ci := range allCalls(fn) {
		switch nm := calleeName(ci.Common()); nm {
		case "(*lake/journal.Queue).ReadHead":
			head, _ = ci.(ssa.Value)
		case "(*lake/journal.Store).getSnapshot":
			snap, _ = ci.(ssa.Value)
		case "(*lake/journal.Queue).OpenAsZNG":
			open = ci.(ssa.Instruction)
		}
	}
	construct := "(*lake/journal.Store).load snapshot position vs head"
	if head == nil || snap == nil || open == nil {
		c.Undecided(rule, construct, "ReadHead / getSnapshot / OpenAsZNG not found in load")
		return
	}
	isID := func(v ssa.Value) bool { return namedOf(v.Type()) == "lake/journal.ID" }
	from := func(v, src ssa.Value) bool {
		return isID(v) && dependsOn(v, func(w ssa.Value) bool { return w == src })
	}
	for _, b := range fn.Blocks {
		for _, in := range b.Instrs {
			cmp, ok := in.(*ssa.BinOp)
			if !ok {
				continue
			}
			switch cmp.Op {
			case token.GTR, token.GEQ, token.LSS, token.LEQ:
			default:
				continue
			}
			if !((from(cmp.X, snap) && from(cmp.Y, head) && !from(cmp.Y, snap)) || (from(cmp.Y, snap) && from(cmp.X, head) && !from(cmp.X, snap))) {
				continue
			}
			feedsIf := false
			for _, r := range *cmp.Referrers() {
				if _, isIf := r.(*ssa.If); isIf {
					feedsIf = true
				}
			}
			if feedsIf && cmp.Block().Dominates(open.Block()) {
				c.OK(rule, construct, cmp.Pos(), "compared before the replay")
				return
			}
		}
	}
	c.Fail(rule, construct, open.Pos(), "the snapshot's position is never compared with the head read earlier in the same load: when other clients commit more than ten entries and store a snapshot between this load's read of HEAD and its read of the snapshot, the newer table is installed and stored under the older position, and every fresh client then fails with `update to non-existent key in journal store` - the branch journal cannot be read any more")
}

// ---- C04-N1: every reader that assembles a map or set value normalises it.
//
// Map and set values have one canonical byte form (entries ordered, duplicates dropped); equality,
// group-by keys and `in` compare bytes.  The ZSON builder, the Arrow reader and the ZJSON set
// decoder normalise what they assemble.  A reader that assembles a map from its input's entry
// order without doing so hands the runtime a value whose bytes differ from the same map read
// from ZSON or ZNG.
func runReadersNormaliseContainers(c *Ctx, rule string) {
	p := c.P
	c.Rule(rule, "in the reader packages, a function that assembles the body of a map (set) value with a zcode.Builder - it holds a *zed.TypeMap (*zed.TypeSet) and opens a container - applies zed.NormalizeMap (NormalizeSet) to it: the same map read from ZJSON, ZSON or Arrow has the same bytes, so ==, group-by and `in` do not depend on the input format")
	pkgs := []string{"zio/zjsonio", "zson", "zio/arrowio", "zio/parquetio", "zio/jsonio", "zio/zeekio", "zio/csvio"}
	n := 0
	for _, fn := range p.FuncsIn(pkgs...) {
		opens := false
		norm := map[string]bool{}
		for _, ci := range allCalls(fn) {
			switch calleeName(ci.Common()) {
			case "(*zcode.Builder).BeginContainer":
				opens = true
			case "(*zcode.Builder).TransformContainer":
				for _, a := range ci.Common().Args {
					if g, ok := stripConv(a).(*ssa.Function); ok {
						norm[g.Name()] = true
					}
					if mc, ok := a.(*ssa.MakeClosure); ok {
						norm[mc.Fn.Name()] = true
					}
				}
			}
		}
		if !opens {
			continue
		}
		for _, kind := range []struct{ typ, norm string }{{"super.TypeMap", "NormalizeMap"}, {"super.TypeSet", "NormalizeSet"}, {"zson.Map", "NormalizeMap"}, {"zson.Set", "NormalizeSet"}} {
			holds := false
			var pos token.Pos
			for _, prm := range fn.Params {
				if namedOf(prm.Type()) == kind.typ {
					holds, pos = true, fn.Pos()
				}
			}
			for _, b := range fn.Blocks {
				for _, in := range b.Instrs {
					if ta, ok := in.(*ssa.TypeAssert); ok && namedOf(ta.AssertedType) == kind.typ {
						// only if a container is opened where the assertion held
						for _, ci := range allCalls(fn) {
							if calleeName(ci.Common()) == "(*zcode.Builder).BeginContainer" && assertDominates(ta, ci.(ssa.Instruction).Block()) {
								holds, pos = true, ta.Pos()
							}
						}
					}
				}
			}
			if !holds {
				continue
			}
			n++
			construct := constructName(fn) + " assembles a " + strings.TrimPrefix(strings.TrimPrefix(kind.typ, "super.Type"), "zson.") + " body"
			if norm[kind.norm] {
				c.OK(rule, construct, pos, "applies zed."+kind.norm)
			} else {
				c.Fail(rule, construct, pos, "the container is closed without zed."+kind.norm+": entries stay in the order the input listed them, so a ZJSON map written as [[\"b\",..],[\"a\",..]] has other bytes than |{\"a\":..,\"b\":..}| read from ZSON and `m == |{...}|`, `count() by m` and `in` answer differently for the two encodings of the same value")
			}
		}
	}
	if n < 4 {
		c.Undecided(rule, "readers assembling map/set bodies", "fewer than the four known builders found ("+sprint(n)+")")
	}
}

// assertDominates: block b is reached only where the (comma-ok or switch) type assertion succeeded.
func assertDominates(ta *ssa.TypeAssert, b *ssa.BasicBlock) bool {
	if !ta.CommaOk {
		return ta.Block().Dominates(b)
	}
	for _, r := range *ta.Referrers() {
		ex, ok := r.(*ssa.Extract)
		if !ok || ex.Index != 1 {
			continue
		}
		if trueEdgeDominatesOrSelf(ex, b) {
			return true
		}
	}
	return false
}

// ---- C11-E1: an enum index taken from text input is checked against the enum.
//
// An enum value is stored as an index into its type's symbols, and every consumer (formatters,
// the JSON writer) indexes Symbols with it.  A reader that parses the index from its input must
// bound it by len(Symbols); otherwise the value it hands out makes the first writer panic.
func runEnumIndexBounded(c *Ctx, rule string) {
	p := c.P
	c.Rule(rule, "a ZJSON reader function that holds a *zed.TypeEnum and appends an index parsed from its input compares that index with len(typ.Symbols) before appending it: an out-of-range index is a read error, not a value that makes formatters index out of range")
	n := 0
	for _, fn := range p.FuncsIn("zio/zjsonio") {
		var enum ssa.Value
		for _, prm := range fn.Params {
			if namedOf(prm.Type()) == "super.TypeEnum" {
				enum = prm
			}
		}
		if enum == nil {
			continue
		}
		for _, ci := range allCalls(fn) {
			if calleeName(ci.Common()) != "(*zcode.Builder).Append" {
				continue
			}
			arg := ci.Common().Args[len(ci.Common().Args)-1]
			var parsed ssa.Value
			dependsOn(arg, func(v ssa.Value) bool {
				if call, ok := v.(*ssa.Call); ok && strings.HasPrefix(calleeName(call.Common()), "strconv.") {
					parsed = call
					return true
				}
				return false
			})
			if parsed == nil {
				continue
			}
			n++
			construct := constructName(fn) + " enum index from input"
			bounded := false
			for _, b := range fn.Blocks {
				for _, in := range b.Instrs {
					cmp, ok := in.(*ssa.BinOp)
					if !ok {
						continue
					}
					switch cmp.Op {
					case token.GEQ, token.GTR, token.LSS, token.LEQ:
					default:
						continue
					}
					isIdx := func(v ssa.Value) bool { return dependsOn(v, func(w ssa.Value) bool { return w == parsed }) }
					isLen := func(v ssa.Value) bool {
						return dependsOn(v, func(w ssa.Value) bool {
							fa, ok := w.(*ssa.FieldAddr)
							return ok && fa.X == enum && fieldName(fa.X.Type(), fa.Field) == "Symbols"
						})
					}
					if !((isIdx(cmp.X) && isLen(cmp.Y)) || (isIdx(cmp.Y) && isLen(cmp.X))) {
						continue
					}
					if cmp.Block().Dominates(ci.(ssa.Instruction).Block()) && cmp.Block() != ci.(ssa.Instruction).Block() {
						bounded = true
					}
				}
			}
			if bounded {
				c.OK(rule, construct, ci.Pos(), "compared with len(Symbols) first")
			} else {
				c.Fail(rule, construct, ci.Pos(), "the index parsed from the input is appended without being compared with len(typ.Symbols): `{\"type\":{\"kind\":\"enum\",\"symbols\":[\"a\",\"b\"]},\"value\":\"7\"}` is read without error and the ZSON writer then panics with index out of range")
			}
		}
	}
	if n == 0 {
		c.Undecided(rule, "zio/zjsonio enum decoding", "no function appending a parsed enum index was found")
	}
}

// ---- C02-U1: the ZSON reader looks through named types before it asks for a kind.
//
// Any type may be wrapped in a named type.  In package zson, code that needs the kind of a
// zed.Type (enum, record, union, ...) either asserts on zed.TypeUnder(t) or dispatches on t with a
// case for *zed.TypeNamed.  An assertion on the raw type silently takes the "not that kind" path
// for a named type: `%a(foo=enum(a,b))` - the text the formatter writes for a value of a named enum
// type - is refused with "enum value is not of type enum".
func runZSONKindsThroughNamed(c *Ctx, rule string) {
	p := c.P
	c.Rule(rule, "in the reading half of package zson (analyzer.go, builder.go) every type assertion from zed.Type to a complex kind is made on the result of zed.TypeUnder, or belongs to a dispatch on the same operand that also has a case for *zed.TypeNamed: values of named types are read like values of their underlying type")
	kinds := map[string]bool{"super.TypeEnum": true, "super.TypeRecord": true, "super.TypeArray": true, "super.TypeSet": true, "super.TypeMap": true, "super.TypeUnion": true, "super.TypeError": true, "super.TypeOfType": true}
	n := 0
	for _, fn := range p.FuncsIn("zson") {
		// the reading half of the package: the analyzer (typed AST) and the builder (bytes)
		if file := p.Pos(fn.Pos()); !strings.HasPrefix(file, "zson/analyzer.go:") && !strings.HasPrefix(file, "zson/builder.go:") {
			continue
		}
		byOperand := map[ssa.Value][]*ssa.TypeAssert{}
		for _, b := range fn.Blocks {
			for _, in := range b.Instrs {
				if ta, ok := in.(*ssa.TypeAssert); ok && namedOf(ta.X.Type()) == "super.Type" {
					byOperand[ta.X] = append(byOperand[ta.X], ta)
				}
			}
		}
		for x, tas := range byOperand {
			through := false
			if call, ok := x.(*ssa.Call); ok {
				switch calleeName(call.Common()) {
				case "super.TypeUnder", "super.TypeRecordOf", "super.InnerType":
					through = true
				}
			}
			for _, ta := range tas {
				if namedOf(ta.AssertedType) == "super.TypeNamed" {
					through = true
				}
			}
			for _, ta := range tas {
				nm := namedOf(ta.AssertedType)
				if !kinds[nm] {
					continue
				}
				n++
				if through {
					continue
				}
				c.Fail(rule, constructName(fn)+" asserts "+nm+" on a type that may be named", ta.Pos(), "the kind is asked of the raw type: for a value of a named "+strings.TrimPrefix(nm, "super.Type")+" type the assertion fails although the underlying type is of that kind, so text the formatter itself writes (`%a(foo=enum(a,b))`) is refused by the reader")
			}
		}
	}
	if n < 10 {
		c.Undecided(rule, "kind assertions in package zson", "fewer than ten kind assertions found ("+sprint(n)+")")
		return
	}
	c.OK(rule, "kind assertions in package zson", token.NoPos, sprint(n)+" assertions examined")
}

// ---- C02-Q1: every type name the formatter writes goes through QuotedTypeName.
//
// A type name is any string; the text form quotes it unless it is an identifier.  The decorator
// and type-value paths call QuotedTypeName; a path that writes Name as it is produces
// `null(a b=int64)`, which does not parse.
func runTypeNamesQuoted(c *Ctx, rule string) {
	p := c.P
	c.Rule(rule, "in zson.Formatter, a string that comes from a named type's Name field or from Formatter.nameOf reaches the output builder (build/buildf) only through zson.QuotedTypeName: names that are not identifiers are quoted on every path, so what is written can be parsed back")
	isSrc := func(v ssa.Value) bool {
		switch x := v.(type) {
		case *ssa.FieldAddr:
			return namedOf(x.X.Type()) == "super.TypeNamed" && fieldName(x.X.Type(), x.Field) == "Name"
		case *ssa.Field:
			return namedOf(x.X.Type()) == "super.TypeNamed" && fieldName(x.X.Type(), x.Field) == "Name"
		case *ssa.Call:
			return calleeName(x.Common()) == "(*zson.Formatter).nameOf"
		}
		return false
	}
	isBarrier := func(v ssa.Value) bool {
		call, ok := v.(*ssa.Call)
		return ok && calleeName(call.Common()) == "zson.QuotedTypeName"
	}
	n := 0
	for _, fn := range p.FuncsIn("zson") {
		if fn.Signature.Recv() == nil || namedOf(fn.Signature.Recv().Type()) != "zson.Formatter" {
			continue
		}
		for _, ci := range allCalls(fn) {
			nm := calleeName(ci.Common())
			if nm != "(*zson.Formatter).build" && nm != "(*zson.Formatter).buildf" {
				continue
			}
			for _, a := range ci.Common().Args[1:] {
				if !dependsOnUnless(a, isSrc, isBarrier) {
					continue
				}
				n++
				c.Fail(rule, constructName(fn)+" writes a type name unquoted", ci.Pos(), "a type name reaches the output without QuotedTypeName: `null(\"a b\"=int64)` is written as `null(a b=int64)`, which the parser rejects (mismatched parentheses)")
			}
			if dependsOnAny(ci.Common().Args[1:], isBarrier) {
				n++
			}
		}
	}
	if n < 2 {
		c.Undecided(rule, "type names written by zson.Formatter", "fewer than two writes of a type name found")
		return
	}
	c.OK(rule, "type names written by zson.Formatter", token.NoPos, sprint(n)+" writes examined")
}

func dependsOnAny(vs []ssa.Value, pred func(ssa.Value) bool) bool {
	for _, v := range vs {
		if dependsOn(v, pred) {
			return true
		}
	}
	return false
}

// dependsOnUnless: the backward slice of v reaches a value satisfying src without passing a barrier.
func dependsOnUnless(v ssa.Value, src, barrier func(ssa.Value) bool) bool {
	seen := map[ssa.Value]bool{}
	var visit func(v ssa.Value) bool
	visit = func(v ssa.Value) bool {
		if v == nil || seen[v] {
			return false
		}
		seen[v] = true
		if barrier(v) {
			return false
		}
		if src(v) {
			return true
		}
		in, ok := v.(ssa.Instruction)
		if !ok {
			return false
		}
		for _, op := range in.Operands(nil) {
			if op != nil && *op != nil && visit(*op) {
				return true
			}
		}
		if a, ok := v.(*ssa.Alloc); ok {
			for _, r := range *a.Referrers() {
				switch x := r.(type) {
				case *ssa.Store:
					if x.Addr == a && visit(x.Val) {
						return true
					}
				case *ssa.IndexAddr:
					for _, rr := range *x.Referrers() {
						if st, ok := rr.(*ssa.Store); ok && st.Addr == x && visit(st.Val) {
							return true
						}
					}
				}
			}
		}
		return false
	}
	return visit(v)
}

// ---- C20-L1: the fuse operator fuses every stream it is given.
//
// An operator inside a lateral scope (`over x => (fuse)`) receives one stream per outer value,
// each ended by an end-of-stream.  The operators that buffer their input (sort, summarize) go back
// to pulling their parent after they have delivered a stream's result.  A fuse operator whose
// goroutine ends after the first stream never consumes the second one: the scope blocks and the
// query hangs; nothing of the later values is output.
func runFuseRestartsPerStream(c *Ctx, rule string) {
	p := c.P
	c.Rule(rule, "fuse.Op.run pulls its parent inside a loop that continues after a stream's result and end-of-stream were delivered: every stream handed to fuse (one per outer value in a lateral scope) is fused and output, none is left unread")
	run := p.Func("(*runtime/sam/op/fuse.Op).run")
	if run == nil {
		c.Undecided(rule, "(*runtime/sam/op/fuse.Op).run", "anchor does not resolve")
		return
	}
	pullsParent := func(fn *ssa.Function) bool {
		for _, ci := range allCalls(fn) {
			cc := ci.Common()
			if cc.IsInvoke() && cc.Method.Name() == "Pull" && strings.HasSuffix(fieldPath(cc.Value), ".parent") {
				return true
			}
		}
		return false
	}
	found, looped := false, false
	for _, ci := range allCalls(run) {
		cc := ci.Common()
		direct := cc.IsInvoke() && cc.Method.Name() == "Pull" && strings.HasSuffix(fieldPath(cc.Value), ".parent")
		via := false
		if g := cc.StaticCallee(); g != nil && p.PkgOf(g) == "runtime/sam/op/fuse" && pullsParent(g) {
			via = true
		}
		if !direct && !via {
			continue
		}
		found = true
		if inCycle(run, ci.(ssa.Instruction)) {
			looped = true
		}
	}
	construct := "(*runtime/sam/op/fuse.Op).run pulls the parent again after end of stream"
	switch {
	case !found:
		c.Undecided(rule, construct, "run does not pull the parent (directly or through a helper)")
	case looped:
		c.OK(rule, construct, run.Pos(), "the pull of the parent is inside run's loop")
	default:
		c.Fail(rule, construct, run.Pos(), "the operator's goroutine pulls its parent until the first end of stream, outputs, and ends: in `over this => (fuse)` the second outer value's stream is never read, the scope blocks and the query hangs after the first group (`[{a:1},{b:2}] [{c:1},{d:2}]` outputs two of four values and never finishes)")
	}
}

// ---- C09-A1: the vector count() by string accumulates across vectors.
//
// A leg of a vectorized plan feeds the operator one vector per object (and per stride).  Every
// update of the count table must add to what the table already holds for the key; an assignment
// keeps only the last vector's count.
func runVectorCountAccumulates(c *Ctx, rule string) {
	p := c.P
	c.Rule(rule, "every update of vam/op.countByString.table (and of its nulls counter) adds to the value already stored for the key: counts from earlier vectors of the same leg are kept, whatever the encoding (plain, dict, const) of the later ones")
	n := 0
	for _, fn := range p.FuncsIn("runtime/vam/op") {
		if fn.Signature.Recv() == nil || namedOf(fn.Signature.Recv().Type()) != "runtime/vam/op.countByString" {
			continue
		}
		for _, b := range fn.Blocks {
			for _, in := range b.Instrs {
				mu, ok := in.(*ssa.MapUpdate)
				if !ok {
					continue
				}
				isTable := func(v ssa.Value) bool {
					return dependsOn(v, func(w ssa.Value) bool {
						fa, ok := w.(*ssa.FieldAddr)
						return ok && fa.X == fn.Params[0] && fieldName(fa.X.Type(), fa.Field) == "table"
					})
				}
				if !isTable(mu.Map) {
					continue
				}
				n++
				construct := constructName(fn) + " updates the count table"
				adds := dependsOn(mu.Value, func(w ssa.Value) bool {
					lk, ok := w.(*ssa.Lookup)
					return ok && isTable(lk.X)
				})
				if adds {
					c.OK(rule, construct, mu.Pos(), "adds to the stored count")
				} else {
					c.Fail(rule, construct, mu.Pos(), "the count for the key is assigned, not added: when one leg scans two objects whose string column is dict-encoded, only the last object's counts survive (`count() by s` over four objects returns 80/40 with vectors and 160/80 without)")
				}
			}
		}
	}
	if n < 3 {
		c.Undecided(rule, "vam/op.countByString table updates", "fewer than the three known updates found ("+sprint(n)+")")
	}
}

// ---- C09-G5: a plan with a slicer is not vectorized.
//
// An aggregation on the pool key keeps the lister's Slicer in the plan; the scans behind it are
// fed partitions (meta.Partition), not data objects.  The vector scanner only understands data
// objects, so vectorizing such a plan turns a working query into `system error: vam.objectPuller
// encountered unnamed object` as soon as every object has a vector copy.
func runVectorizeDeclinesSliced(c *Ctx, rule string) {
	p := c.P
	c.Rule(rule, "optimizer.Vectorize looks for a dag.Slicer in the plan (in itself, its closures or helpers) before wrapping scans: a sliced plan feeds scans partitions, which the vector scanner rejects")
	fn := p.Func("(*compiler/optimizer.Optimizer).Vectorize")
	if fn == nil {
		c.Undecided(rule, "(*compiler/optimizer.Optimizer).Vectorize", "anchor does not resolve")
		return
	}
	seen := map[*ssa.Function]bool{}
	var looks func(f *ssa.Function, depth int) bool
	looks = func(f *ssa.Function, depth int) bool {
		if f == nil || seen[f] || depth > 2 {
			return false
		}
		seen[f] = true
		for _, b := range f.Blocks {
			for _, in := range b.Instrs {
				if ta, ok := in.(*ssa.TypeAssert); ok && namedOf(ta.AssertedType) == "compiler/ast/dag.Slicer" {
					return true
				}
				if ci, ok := in.(ssa.CallInstruction); ok {
					if g := ci.Common().StaticCallee(); g != nil && p.PkgOf(g) == "compiler/optimizer" && g.Name() != "walkEntries" && looks(g, depth+1) {
						return true
					}
				}
			}
		}
		for _, an := range f.AnonFuncs {
			if looks(an, depth) {
				return true
			}
		}
		return false
	}
	construct := "(*compiler/optimizer.Optimizer).Vectorize examines the plan for a slicer"
	if !looks(fn, 0) {
		c.Fail(rule, construct, fn.Pos(), "the decision to vectorize never looks for a dag.Slicer: `count() by <pool key>` keeps the slicer in front of the parallel scans, the vector scanner is handed partitions and the query fails with `vam.objectPuller encountered unnamed object: meta.Partition` once all objects have vectors")
		return
	}
	// the outcome of the test decides whether the vectorizing walk runs: a cell the test's closure
	// writes is read by an If in Vectorize, and the walk whose closure reaches vectorize() is on
	// that If's false edge
	var cells []ssa.Value
	for _, an := range fn.AnonFuncs {
		hasTest := false
		for _, b := range an.Blocks {
			for _, in := range b.Instrs {
				if ta, ok := in.(*ssa.TypeAssert); ok && namedOf(ta.AssertedType) == "compiler/ast/dag.Slicer" {
					hasTest = true
				}
			}
		}
		if !hasTest {
			continue
		}
		for _, r := range *an.Referrers() {
			mc, ok := r.(*ssa.MakeClosure)
			if !ok {
				continue
			}
			for i, fv := range an.FreeVars {
				for _, rr := range *fv.Referrers() {
					if st, ok := rr.(*ssa.Store); ok && st.Addr == fv && i < len(mc.Bindings) {
						cells = append(cells, mc.Bindings[i])
					}
				}
			}
		}
	}
	reachesVectorize := func(f *ssa.Function) bool {
		for _, ci := range allCalls(f) {
			if calleeName(ci.Common()) == "compiler/optimizer.vectorize" {
				return true
			}
		}
		return false
	}
	decided := false
	for _, ci := range allCalls(fn) {
		vect := false
		for _, a := range ci.Common().Args {
			if mc, ok := a.(*ssa.MakeClosure); ok && reachesVectorize(mc.Fn.(*ssa.Function)) {
				vect = true
			}
		}
		if !vect {
			continue
		}
		for _, cell := range cells {
			for _, r := range *cell.Referrers() {
				ld, ok := r.(*ssa.UnOp)
				if !ok || ld.Op != token.MUL {
					continue
				}
				if falseEdgeDominatesOrSelf(ld, ci.(ssa.Instruction).Block()) {
					decided = true
				}
			}
		}
	}
	if decided {
		c.OK(rule, construct, fn.Pos(), "the vectorizing walk runs only where no dag.Slicer was found")
	} else {
		c.Fail(rule, construct, fn.Pos(), "a dag.Slicer is looked for but the outcome does not keep the vectorizing walk from running: `count() by <pool key>` keeps the slicer in front of the parallel scans, the vector scanner is handed partitions and the query fails with `vam.objectPuller encountered unnamed object: meta.Partition` once all objects have vectors")
	}
}

// ---- C03-E1: slot-aligned children inherit their parent's nulls in the vector cache.
//
// A record's fields and an error's payload are stored with one value per non-null slot of the
// parent, so when the cache rebuilds full-length vectors the child must be flattened against the
// parent's flattened nulls.  (Arrays, sets, maps and unions address their children through offsets
// or tags and start a new null space.)
func runSlotAlignedChildrenInheritNulls(c *Ctx, rule string) {
	p := c.P
	c.Rule(rule, "in vcache.flattenNulls the children of a record and of an error are flattened against the result of the parent's nulls.flatten, not against nil: their vectors hold one value per non-null parent slot")
	fn := p.Func("runtime/vcache.flattenNulls")
	if fn == nil {
		c.Undecided(rule, "runtime/vcache.flattenNulls", "anchor does not resolve")
		return
	}
	found := map[string]bool{}
	for _, b := range fn.Blocks {
		for _, in := range b.Instrs {
			ta, ok := in.(*ssa.TypeAssert)
			if !ok {
				continue
			}
			kind := namedOf(ta.AssertedType)
			if kind != "runtime/vcache.record" && kind != "runtime/vcache.error_" {
				continue
			}
			for _, ci := range allCalls(fn) {
				if ci.Common().StaticCallee() != fn || !assertDominates(ta, ci.(ssa.Instruction).Block()) {
					continue
				}
				found[kind] = true
				arg := ci.Common().Args[2]
				construct := "runtime/vcache.flattenNulls child of " + strings.TrimPrefix(kind, "runtime/vcache.")
				if dependsOn(arg, func(v ssa.Value) bool {
					call, ok := v.(*ssa.Call)
					return ok && calleeName(call.Common()) == "(*runtime/vcache.nulls).flatten"
				}) {
					c.OK(rule, construct, ci.Pos(), "flattened against the parent's flattened nulls")
				} else {
					c.Fail(rule, construct, ci.Pos(), "the child is flattened against nil although it holds one value per non-null slot of its parent: `{e:error(\"x\")} null({e:error(string)}) {e:error(\"y\")}` written to VNG and read through the vector cache indexes a two-value vector at slot 2 and panics, while the row reader returns the three values")
				}
			}
		}
	}
	for _, k := range []string{"runtime/vcache.record", "runtime/vcache.error_"} {
		if !found[k] {
			c.Undecided(rule, "runtime/vcache.flattenNulls child of "+strings.TrimPrefix(k, "runtime/vcache."), "the case was not found")
		}
	}
}

// ---- C03-P2: the vector cache loads at least what it projects.
//
// vcache.project decides, per kind of shadow vector, whether the projection path continues into
// the children (records, named, error) or stops and the child is built whole (array, set, map,
// union: it passes nil).  The three walks that prepare the data - loadVector, fetchNulls and
// flattenNulls - must not be narrower: where project builds the child whole, they must load it
// whole too.  Passing the remaining path down instead loads only the projected field of an
// array's element records, and project then builds a record out of nil vectors.
func runVcacheLoadsWhatItProjects(c *Ctx, rule string) {
	p := c.P
	c.Rule(rule, "for every kind of shadow vector for which vcache.project passes a nil path to the children (builds them whole), loadVector, fetchNulls and flattenNulls pass a nil path as well: everything project touches has been loaded and its nulls flattened")
	ref := p.Func("runtime/vcache.project")
	walks := []string{"(*runtime/vcache.loader).loadVector", "(*runtime/vcache.loader).fetchNulls", "runtime/vcache.flattenNulls"}
	if ref == nil {
		c.Undecided(rule, "runtime/vcache.project", "anchor does not resolve")
		return
	}
	// kind -> "nil" | "paths" | "" (no child call)
	classify := func(fn *ssa.Function) map[string]string {
		out := map[string]string{}
		for _, b := range fn.Blocks {
			for _, in := range b.Instrs {
				ta, ok := in.(*ssa.TypeAssert)
				if !ok || !strings.HasPrefix(namedOf(ta.AssertedType), "runtime/vcache.") {
					continue
				}
				kind := namedOf(ta.AssertedType)
				for _, ci := range allCalls(fn) {
					g := ci.Common().StaticCallee()
					if g == nil || p.PkgOf(g) != "runtime/vcache" || !assertDominates(ta, ci.(ssa.Instruction).Block()) {
						continue
					}
					for _, a := range ci.Common().Args {
						if namedOf(a.Type()) != "runtime/vcache.Path" {
							continue
						}
						if isNilConst(stripConv(a)) {
							if out[kind] == "" {
								out[kind] = "nil"
							}
						} else {
							out[kind] = "paths"
						}
					}
				}
			}
		}
		return out
	}
	refKinds := classify(ref)
	whole := 0
	for _, k := range refKinds {
		if k == "nil" {
			whole++
		}
	}
	if whole < 3 {
		c.Undecided(rule, "runtime/vcache.project", "fewer than three kinds built whole were found ("+sprint(whole)+")")
		return
	}
	for _, name := range walks {
		fn := p.Func(name)
		if fn == nil {
			c.Undecided(rule, name, "anchor does not resolve")
			continue
		}
		got := classify(fn)
		var kinds []string
		for k := range refKinds {
			kinds = append(kinds, k)
		}
		sort.Strings(kinds)
		for _, k := range kinds {
			if refKinds[k] != "nil" {
				continue
			}
			construct := fnName(fn) + " below a " + strings.TrimPrefix(k, "runtime/vcache.")
			switch got[k] {
			case "paths":
				c.Fail(rule, construct, fn.Pos(), "project builds the children of this kind whole (nil path) but this walk passes the remaining projection path down: for a pool holding `[{n:1,x:\"a\"}]`, `sum(n)` over vectors loads only n of the element records, project builds the whole element record and dereferences the unloaded x - the process dies")
			default:
				c.OK(rule, construct, fn.Pos(), "children handled whole")
			}
		}
	}
}

// ---- C09-N2: the vector count() by string looks at the nulls of every vector it counts.
//
// The sequential runtime reports a group for null keys.  Each encoding carries its nulls apart
// from its values (String.Nulls, Dict.Nulls next to Counts, which cover non-null slots only,
// Const.Nulls), so each counting path must read that field; a path that does not either drops the
// null group or counts null slots under a value.
func runVectorCountReadsNulls(c *Ctx, rule string) {
	p := c.P
	c.Rule(rule, "each counting path of vam/op count-by-string (plain strings, dictionary, constant) reads the Nulls field of the vector it counts, so null keys form their own group as in the sequential runtime")
	readsNulls := func(fn *ssa.Function, of func(ssa.Value) bool) bool {
		for _, b := range fn.Blocks {
			for _, in := range b.Instrs {
				if fa, ok := in.(*ssa.FieldAddr); ok && fieldName(fa.X.Type(), fa.Field) == "Nulls" && of(fa.X) {
					return true
				}
			}
		}
		return false
	}
	n := 0
	for _, name := range []string{"(*runtime/vam/op.countByString).count", "(*runtime/vam/op.countByString).countFixed"} {
		fn := p.Func(name)
		if fn == nil || len(fn.Params) < 2 {
			c.Undecided(rule, name, "anchor does not resolve")
			continue
		}
		n++
		vec := fn.Params[1]
		if readsNulls(fn, func(v ssa.Value) bool { return v == vec }) {
			c.OK(rule, name+" reads the vector's nulls", fn.Pos(), "Nulls consulted")
		} else {
			c.Fail(rule, name+" reads the vector's nulls", fn.Pos(), "the slots are counted without looking at the vector's Nulls: null keys are counted under a value (\"\" or the constant) instead of forming the null group - `count() by s` differs once the objects have vector copies")
		}
	}
	up := p.Func("(*runtime/vam/op.CountByString).update")
	if up == nil {
		c.Undecided(rule, "(*runtime/vam/op.CountByString).update", "anchor does not resolve")
		return
	}
	for _, b := range up.Blocks {
		for _, in := range b.Instrs {
			ta, ok := in.(*ssa.TypeAssert)
			if !ok || namedOf(ta.AssertedType) != "vector.Dict" {
				continue
			}
			n++
			construct := "(*runtime/vam/op.CountByString).update dictionary case reads the vector's nulls"
			if readsNulls(up, func(v ssa.Value) bool {
				return dependsOn(v, func(w ssa.Value) bool { return w == ta })
			}) {
				c.OK(rule, construct, ta.Pos(), "Nulls consulted")
			} else {
				c.Fail(rule, construct, ta.Pos(), "a dictionary's Counts cover its non-null slots only and its Nulls are not read: the group for null keys is dropped - `count() by s` over {s:\"a\"} {s:null(string)} {s:\"b\"} returns two groups with vectors and three without")
			}
		}
	}
	if n < 3 {
		c.Undecided(rule, "vam/op count-by-string counting paths", "fewer than the three known paths found")
	}
}

// ---- C10-I1: sorted-input streaming of summarize is enabled by its first key only.
//
// groupby.Aggregator streams results as soon as the value of grouping key 0 advances.  The
// optimizer may tell it that the input is sorted (Summarize.InputSortDir) only when the sort key
// is that first grouping key; matching any grouping key makes `count() by k, ts` over input sorted
// on ts emit a group every time k changes, i.e. the same group several times with partial counts.
func runInputSortDirFirstKeyOnly(c *Ctx, rule string) {
	p := c.P
	c.Rule(rule, "in optimizer.propagateSortKeyOp the store to Summarize.InputSortDir is reached only for the first grouping key (a slice of op.Keys bounded by 1, or index 0): the aggregator streams on grouping key 0 alone")
	fn := p.Func("(*compiler/optimizer.Optimizer).propagateSortKeyOp")
	if fn == nil {
		c.Undecided(rule, "(*compiler/optimizer.Optimizer).propagateSortKeyOp", "anchor does not resolve")
		return
	}
	n := 0
	for _, b := range fn.Blocks {
		for _, in := range b.Instrs {
			st, ok := in.(*ssa.Store)
			if !ok {
				continue
			}
			fa, ok := st.Addr.(*ssa.FieldAddr)
			if !ok || fieldName(fa.X.Type(), fa.Field) != "InputSortDir" {
				continue
			}
			n++
			construct := "(*compiler/optimizer.Optimizer).propagateSortKeyOp sets InputSortDir"
			// the keys examined on the way here: IndexAddr into a slice derived from op.Keys
			okAll, any := true, false
			for _, bb := range fn.Blocks {
				for _, ii := range bb.Instrs {
					ia, isIA := ii.(*ssa.IndexAddr)
					if !isIA || !bb.Dominates(b) {
						continue
					}
					fromKeys := dependsOn(ia.X, func(v ssa.Value) bool {
						f, ok := v.(*ssa.FieldAddr)
						return ok && fieldName(f.X.Type(), f.Field) == "Keys" && namedOf(f.X.Type()) == "compiler/ast/dag.Summarize"
					})
					if !fromKeys {
						continue
					}
					any = true
					if k, isConst := ia.Index.(*ssa.Const); isConst && k.Int64() == 0 {
						continue
					}
					// a loop index: fine only over a slice whose upper bound is at most 1
					bounded := dependsOn(ia.X, func(v ssa.Value) bool {
						sl, ok := v.(*ssa.Slice)
						if !ok || sl.High == nil {
							return false
						}
						if k, ok := sl.High.(*ssa.Const); ok {
							return k.Int64() <= 1
						}
						// min(1, len(..))
						return dependsOn(sl.High, func(w ssa.Value) bool {
							call, ok := w.(*ssa.Call)
							if !ok {
								return false
							}
							if bi, ok := call.Call.Value.(*ssa.Builtin); ok && bi.Name() == "min" {
								for _, a := range call.Call.Args {
									if k, ok := a.(*ssa.Const); ok && k.Int64() <= 1 {
										return true
									}
								}
							}
							return false
						})
					})
					if !bounded {
						okAll = false
					}
				}
			}
			switch {
			case !any:
				c.Undecided(rule, construct, "the grouping keys examined before the store were not found")
			case okAll:
				c.OK(rule, construct, st.Pos(), "only the first grouping key is examined")
			default:
				c.Fail(rule, construct, st.Pos(), "the sort key is matched against every grouping key, but the aggregator streams on grouping key 0: `count() by k, ts` over 150 records sorted on ts returns {k:0,ts:0} twice (counts 25 and 50) instead of once with 75")
			}
		}
	}
	if n == 0 {
		c.Undecided(rule, "(*compiler/optimizer.Optimizer).propagateSortKeyOp sets InputSortDir", "no store to InputSortDir found")
	}
}

// ---- C19-K8: a path segment that is "." or ".." is encoded by the client.
//
// url.PathEscape leaves dots alone, and both path.Clean in the client and the router on the
// server remove dot segments: `RemoveBranch(pool, "..")` became `DELETE /pool/<id>` and deleted
// the pool.  urlPath must single out the two dot segments and give them an encoded form.
func runClientEncodesDotSegments(c *Ctx, rule string) {
	p := c.P
	c.Rule(rule, "api/client.urlPath compares each segment with \".\" and \"..\" and appends something other than the PathEscape of the segment for them: a branch or pool named \"..\" stays one path segment on its way to the service instead of removing its parent segment")
	fn := p.Func("api/client.urlPath")
	if fn == nil {
		c.Undecided(rule, "api/client.urlPath", "anchor does not resolve")
		return
	}
	seen := map[string]bool{}
	for _, b := range fn.Blocks {
		for _, in := range b.Instrs {
			cmp, ok := in.(*ssa.BinOp)
			if !ok || cmp.Op != token.EQL {
				continue
			}
			for _, v := range []ssa.Value{cmp.X, cmp.Y} {
				if k, ok := v.(*ssa.Const); ok && k.Value != nil && k.Value.Kind() == constant.String {
					s := constant.StringVal(k.Value)
					if s == "." || s == ".." {
						// the true edge must lead somewhere that does not just PathEscape
						for _, r := range *cmp.Referrers() {
							if iff, ok := r.(*ssa.If); ok {
								t := iff.Block().Succs[0]
								escapes := false
								for _, ti := range t.Instrs {
									if ci, ok := ti.(ssa.CallInstruction); ok && calleeName(ci.Common()) == "net/url.PathEscape" {
										escapes = true
									}
								}
								if !escapes {
									seen[s] = true
								}
							}
						}
					}
				}
			}
		}
	}
	construct := "api/client.urlPath dot segments"
	if seen["."] && seen[".."] {
		c.OK(rule, construct, fn.Pos(), "\".\" and \"..\" are singled out and not passed through PathEscape")
	} else {
		c.Fail(rule, construct, fn.Pos(), "dot segments are escaped like any other name, i.e. not at all: `RemoveBranch(pool, \"..\")` through the service is sent as DELETE /pool/<id>/branch/.., cleaned to DELETE /pool/<id>, and deletes the whole pool with a nil error, where direct access answers `branch not found`")
	}
}

// ---- C11-S2: the ZSON string decoder reads relative to its cursor, within bounds.
//
// parseStringBytes walks a string literal with a cursor k.  A read of bytes[<constant>] inside
// the loop inspects the start of the literal instead of the current position, and a slice
// bytes[k+c:] with c > 0 needs a test relating len(bytes) to k first; `"\ud800"` (a lone high
// surrogate at the end) used to slice [8:6] and panic.
func runStringDecoderCursor(c *Ctx, rule string) {
	p := c.P
	c.Rule(rule, "inside the decode loop of zson.parseStringBytes every index into the input depends on the cursor, and every slice that starts beyond the cursor (bytes[k+c:], c > 0) is dominated by a test that relates len(bytes) to the cursor: malformed escapes at the end of a literal are errors, not slice-bounds panics")
	fn := p.Func("zson.parseStringBytes")
	if fn == nil || len(fn.Params) < 2 {
		c.Undecided(rule, "zson.parseStringBytes", "anchor does not resolve")
		return
	}
	input := fn.Params[1]
	isLen := func(v ssa.Value) bool {
		call, ok := v.(*ssa.Call)
		if !ok {
			return false
		}
		b, ok := call.Call.Value.(*ssa.Builtin)
		return ok && b.Name() == "len" && len(call.Call.Args) == 1 && call.Call.Args[0] == input
	}
	isPhi := func(v ssa.Value) bool { _, ok := v.(*ssa.Phi); return ok }
	n, bad := 0, 0
	for _, b := range fn.Blocks {
		for _, in := range b.Instrs {
			if !inCycle(fn, in) {
				continue
			}
			switch x := in.(type) {
			case *ssa.IndexAddr:
				if x.X != input {
					continue
				}
				n++
				if !dependsOn(x.Index, isPhi) {
					bad++
					c.Fail(rule, "zson.parseStringBytes reads a fixed position inside the decode loop", x.Pos(), "the input is indexed with a value that does not depend on the cursor: the check looks at the start of the literal instead of the current escape, so `\"\\ud800\"` passes it and the following slice runs past the end (slice bounds out of range [8:6])")
				}
			case *ssa.Slice:
				if x.X != input || x.Low == nil {
					continue
				}
				add, ok := x.Low.(*ssa.BinOp)
				if !ok || add.Op != token.ADD {
					continue // bytes[k:] - k never exceeds len(bytes)
				}
				n++
				guarded := false
				for _, gb := range fn.Blocks {
					if len(gb.Instrs) == 0 || gb == b || !gb.Dominates(b) {
						continue
					}
					iff, ok := gb.Instrs[len(gb.Instrs)-1].(*ssa.If)
					if !ok {
						continue
					}
					if dependsOn(iff.Cond, isLen) && dependsOn(iff.Cond, isPhi) {
						guarded = true
					}
				}
				if !guarded {
					bad++
					c.Fail(rule, "zson.parseStringBytes slices beyond the cursor unchecked", x.Pos(), "the input is sliced from beyond the cursor without a dominating test that relates len(bytes) to the cursor: a high surrogate escape at the end of a literal (`\"\\ud800\"`) panics with slice bounds out of range")
				}
			}
		}
	}
	switch {
	case n < 3:
		c.Undecided(rule, "zson.parseStringBytes", "fewer than three cursor-relative reads found ("+sprint(n)+")")
	case bad == 0:
		c.OK(rule, "zson.parseStringBytes cursor-relative reads", fn.Pos(), sprint(n)+" reads, all relative to the cursor and bounded")
	}
}

// ---- C11-V2: four places where a text reader must test before it indexes or encodes.
//
// Each was a panic reachable from input text (reader + zio.Copy): the empty backtick string, an
// enum named by a string that is not one of its symbols, a ZJSON record value with fewer elements
// than its type has fields, and an enum selector >= 2^63 passing Validate through a signed
// conversion.
func runReaderSanityTests(c *Ctx, rule string) {
	p := c.P
	c.Rule(rule, "(a) scanBacktickString indexes its result only after a test of its length; (b) stringToEnum builds an enum value only where TypeEnum.Lookup found the symbol; (c) zjsonio decodeRecord compares the number of values with the number of fields before it closes the container; (d) zed.checkEnum compares the selector with the symbol count without converting it to a signed integer")
	lenOf := func(of func(ssa.Value) bool) func(ssa.Value) bool {
		return func(v ssa.Value) bool {
			call, ok := v.(*ssa.Call)
			if !ok {
				return false
			}
			b, ok := call.Call.Value.(*ssa.Builtin)
			return ok && b.Name() == "len" && len(call.Call.Args) == 1 && of(call.Call.Args[0])
		}
	}
	// (a)
	if fn := p.Func("(*zson.Lexer).scanBacktickString"); fn == nil {
		c.Undecided(rule, "(*zson.Lexer).scanBacktickString", "anchor does not resolve")
	} else {
		n, bad := 0, 0
		for _, b := range fn.Blocks {
			for _, in := range b.Instrs {
				ia, ok := in.(*ssa.IndexAddr)
				if !ok {
					continue
				}
				if _, isConst := ia.Index.(*ssa.Const); !isConst {
					continue
				}
				n++
				guarded := false
				for _, gb := range fn.Blocks {
					if len(gb.Instrs) == 0 || !gb.Dominates(b) {
						continue
					}
					if iff, ok := gb.Instrs[len(gb.Instrs)-1].(*ssa.If); ok && dependsOn(iff.Cond, lenOf(func(v ssa.Value) bool { return v == ia.X || sameVar(v, ia.X) })) {
						guarded = true
					}
				}
				// short-circuit `len(b) > 0 && b[0] == ..` puts the index in the block the length test branches to
				if !guarded {
					for _, pb := range b.Preds {
						if len(pb.Instrs) > 0 {
							if iff, ok := pb.Instrs[len(pb.Instrs)-1].(*ssa.If); ok && len(b.Preds) == 1 && dependsOn(iff.Cond, lenOf(func(ssa.Value) bool { return true })) {
								guarded = true
							}
						}
					}
				}
				if !guarded {
					bad++
					c.Fail(rule, "(*zson.Lexer).scanBacktickString indexes its result", ia.Pos(), "the scanned bytes are indexed at a fixed position without a test of their length: the empty backtick string (two backticks) panics with index out of range")
				}
			}
		}
		if n > 0 && bad == 0 {
			c.OK(rule, "(*zson.Lexer).scanBacktickString indexes its result", fn.Pos(), "after a length test")
		} else if n == 0 {
			c.OK(rule, "(*zson.Lexer).scanBacktickString indexes its result", fn.Pos(), "no fixed-position index")
		}
	}
	// (b)
	if fn := p.Func("zson.stringToEnum"); fn == nil {
		c.Undecided(rule, "zson.stringToEnum", "anchor does not resolve")
	} else {
		var lookups []ssa.Value
		for _, ci := range allCalls(fn) {
			if calleeName(ci.Common()) == "(*super.TypeEnum).Lookup" {
				if v, ok := ci.(ssa.Value); ok {
					lookups = append(lookups, v)
				}
			}
		}
		ok, found := false, false
		for _, b := range fn.Blocks {
			for _, in := range b.Instrs {
				al, isAlloc := in.(*ssa.Alloc)
				if !isAlloc || namedOf(al.Type()) != "zson.Enum" {
					continue
				}
				found = true
				for _, gb := range fn.Blocks {
					if len(gb.Instrs) == 0 || !gb.Dominates(b) {
						continue
					}
					if iff, isIf := gb.Instrs[len(gb.Instrs)-1].(*ssa.If); isIf {
						for _, lk := range lookups {
							if dependsOn(iff.Cond, func(v ssa.Value) bool { return v == lk }) {
								ok = true
							}
						}
					}
				}
			}
		}
		switch {
		case !found:
			c.Undecided(rule, "zson.stringToEnum builds an enum value", "no construction of zson.Enum found")
		case ok:
			c.OK(rule, "zson.stringToEnum builds an enum value", fn.Pos(), "only where Lookup found the symbol")
		default:
			c.Fail(rule, "zson.stringToEnum builds an enum value", fn.Pos(), "a string cast to an enum type becomes an enum value without a test that it names one of the symbols: `\"foo\"(enum(a,b))` is encoded with selector -1 and the first formatter indexes Symbols out of range")
		}
	}
	// (c)
	if fn := p.Func("(*zio/zjsonio.Reader).decodeRecord"); fn == nil {
		c.Undecided(rule, "(*zio/zjsonio.Reader).decodeRecord", "anchor does not resolve")
	} else {
		isFields := func(v ssa.Value) bool {
			return dependsOn(v, func(w ssa.Value) bool {
				fa, ok := w.(*ssa.FieldAddr)
				return ok && fieldName(fa.X.Type(), fa.Field) == "Fields"
			})
		}
		isValues := func(v ssa.Value) bool {
			sl, ok := v.Type().Underlying().(*types.Slice)
			if !ok {
				return false
			}
			_, isIface := sl.Elem().Underlying().(*types.Interface)
			return isIface
		}
		ok := false
		for _, b := range fn.Blocks {
			for _, in := range b.Instrs {
				cmp, isCmp := in.(*ssa.BinOp)
				if !isCmp {
					continue
				}
				switch cmp.Op {
				case token.LSS, token.GTR, token.NEQ, token.LEQ, token.GEQ, token.EQL:
				default:
					continue
				}
				lv := lenOf(isValues)
				lf := lenOf(isFields)
				direct := func(v ssa.Value, f func(ssa.Value) bool) bool { return f(v) }
				if (direct(cmp.X, lv) && direct(cmp.Y, lf)) || (direct(cmp.Y, lv) && direct(cmp.X, lf)) {
					ok = true
				}
			}
		}
		if ok {
			c.OK(rule, "(*zio/zjsonio.Reader).decodeRecord compares value and field counts", fn.Pos(), "len(values) is compared with len(fields)")
		} else {
			c.Fail(rule, "(*zio/zjsonio.Reader).decodeRecord compares value and field counts", fn.Pos(), "only surplus values are rejected: a record value with fewer elements than its type has fields is read without error and the first writer panics with `bad uvarint` while walking the missing fields")
		}
	}
	// (d)
	if fn := p.Func("super.checkEnum"); fn == nil {
		c.Undecided(rule, "super.checkEnum", "anchor does not resolve")
	} else {
		signed := false
		found := false
		for _, b := range fn.Blocks {
			for _, in := range b.Instrs {
				cmp, isCmp := in.(*ssa.BinOp)
				if !isCmp {
					continue
				}
				switch cmp.Op {
				case token.GEQ, token.GTR, token.LSS, token.LEQ:
				default:
					continue
				}
				found = true
				for _, v := range []ssa.Value{cmp.X, cmp.Y} {
					if cv, ok := v.(*ssa.Convert); ok {
						from, ok1 := cv.X.Type().Underlying().(*types.Basic)
						to, ok2 := cv.Type().Underlying().(*types.Basic)
						if ok1 && ok2 && from.Info()&types.IsUnsigned != 0 && to.Info()&types.IsUnsigned == 0 && to.Info()&types.IsInteger != 0 {
							signed = true
						}
					}
				}
			}
		}
		switch {
		case !found:
			c.Undecided(rule, "super.checkEnum selector range test", "no range comparison found")
		case signed:
			c.Fail(rule, "super.checkEnum selector range test", fn.Pos(), "the unsigned selector is converted to a signed int before it is compared with the symbol count: a selector of 2^63 or more wraps negative, passes Validate, and the formatter indexes Symbols out of range")
		default:
			c.OK(rule, "super.checkEnum selector range test", fn.Pos(), "compared as unsigned")
		}
	}
}

// ---- C07-N3: a sort that puts nulls first does not make its output "sorted" for the optimizer.
//
// Join (which then skips its own sort), summarize and merge assume the null placement of a plain
// sort.  optimizer.sortKeysOfSort is what tells them the stream is sorted, so it must report keys
// only for sorts without the nulls-first option.
func runNullsFirstSortNotPropagated(c *Ctx, rule string) {
	p := c.P
	c.Rule(rule, "optimizer.sortKeysOfSort returns sort keys only on the false edge of a test of Sort.NullsFirst: downstream operators that skip work on sorted input (join, summarize, merge) expect nulls where a sort without the option puts them")
	fn := p.Func("compiler/optimizer.sortKeysOfSort")
	if fn == nil {
		c.Undecided(rule, "compiler/optimizer.sortKeysOfSort", "anchor does not resolve")
		return
	}
	var tests []ssa.Value
	for _, b := range fn.Blocks {
		for _, in := range b.Instrs {
			if u, ok := in.(*ssa.UnOp); ok && u.Op == token.MUL {
				if fa, ok := u.X.(*ssa.FieldAddr); ok && fa.X == fn.Params[0] && fieldName(fa.X.Type(), fa.Field) == "NullsFirst" {
					tests = append(tests, u)
				}
			}
		}
	}
	n, bad := 0, 0
	for _, b := range fn.Blocks {
		if len(b.Instrs) == 0 {
			continue
		}
		ret, ok := b.Instrs[len(b.Instrs)-1].(*ssa.Return)
		if !ok || len(ret.Results) != 1 || isNilConst(ret.Results[0]) {
			continue
		}
		n++
		guarded := false
		for _, t := range tests {
			if falseEdgeDominatesOrSelf(t, b) {
				guarded = true
			}
		}
		if !guarded {
			bad++
			c.Fail(rule, "compiler/optimizer.sortKeysOfSort reports keys for a nulls-first sort", ret.Pos(), "sort keys are reported whatever the sort's null placement: after `sort -nulls first b` a join believes its input sorted, skips its own sort, and its comparator (nulls are the maximum) lets the leading null row consume the whole other side - every non-null row loses its match in the optimized plan only")
		}
	}
	switch {
	case n == 0:
		c.Undecided(rule, "compiler/optimizer.sortKeysOfSort", "no return of sort keys found")
	case bad == 0:
		c.OK(rule, "compiler/optimizer.sortKeysOfSort reports keys for a nulls-first sort", fn.Pos(), "keys are reported only where NullsFirst is false")
	}
}

// ---- C10-M2: min/max/sum carry their state into a promoted accumulator only if they have one.
//
// When a value of a wider type arrives, mathReducer replaces its accumulator by one of the
// promoted type, seeded with the old accumulator's result.  Before any non-null value was
// consumed that result is the function's identity (MaxInt64 for min), which is not a value of the
// input: the outcome then depends on whether a typed null happened to arrive first - i.e. on the
// arrival order, which spilling and parallel legs change.
func runMathReducerPromotion(c *Ctx, rule string) {
	p := c.P
	c.Rule(rule, "agg.mathReducer.consumeVal reads the old accumulator's result, to seed the promoted accumulator, only where m.hasval is true: the identity value of min/max never enters the computation as if it were data")
	fn := p.Func("(*runtime/sam/expr/agg.mathReducer).consumeVal")
	if fn == nil {
		c.Undecided(rule, "(*runtime/sam/expr/agg.mathReducer).consumeVal", "anchor does not resolve")
		return
	}
	var hasval []ssa.Value
	for _, b := range fn.Blocks {
		for _, in := range b.Instrs {
			if u, ok := in.(*ssa.UnOp); ok && u.Op == token.MUL {
				if fa, ok := u.X.(*ssa.FieldAddr); ok && fa.X == fn.Params[0] && fieldName(fa.X.Type(), fa.Field) == "hasval" {
					hasval = append(hasval, u)
				}
			}
		}
	}
	n := 0
	for _, ci := range allCalls(fn) {
		cc := ci.Common()
		if !cc.IsInvoke() || cc.Method.Name() != "result" {
			continue
		}
		n++
		ok := false
		for _, h := range hasval {
			if trueEdgeDominatesOrSelf(h, ci.(ssa.Instruction).Block()) {
				ok = true
			}
		}
		construct := "(*runtime/sam/expr/agg.mathReducer).consumeVal seeds the promoted accumulator"
		if ok {
			c.OK(rule, construct, ci.Pos(), "only where a value has been consumed")
		} else {
			c.Fail(rule, construct, ci.Pos(), "the old accumulator's result is carried over even when no value has been consumed yet, so the identity of the function enters as data: `min(x)` over {x:null(int64)} {x:1e19} is 9.223372036854776e+18, over the same values in the other order 1e+19")
		}
	}
	if n == 0 {
		c.Undecided(rule, "(*runtime/sam/expr/agg.mathReducer).consumeVal", "no read of the old accumulator's result found")
	}
}

// ---- C05-T1: the type order separates same-named types that name different types.
//
// LookupTypeUnion sorts its members with CompareTypes (stably) to make a union canonical.  Two
// named types with the same name and the same underlying id can still be different types
// (A=(B=int64) and A=(C=int64)); if they compare equal, the union's member order - and with it
// the union type object - depends on the order the members were given in.
func runTypeOrderSeparatesNamed(c *Ctx, rule string) {
	p := c.P
	c.Rule(rule, "in zed.CompareTypes the result for two named types depends, beyond their names, on a comparison of the types they name: distinct types never compare equal, so the canonical member order of a union does not depend on the order its members were listed in")
	fn := p.Func("super.CompareTypes")
	if fn == nil {
		c.Undecided(rule, "super.CompareTypes", "anchor does not resolve")
		return
	}
	// the block(s) where both operands were asserted to *TypeNamed
	var both []*ssa.BasicBlock
	var asserts []*ssa.TypeAssert
	for _, b := range fn.Blocks {
		for _, in := range b.Instrs {
			if ta, ok := in.(*ssa.TypeAssert); ok && namedOf(ta.AssertedType) == "super.TypeNamed" {
				asserts = append(asserts, ta)
			}
		}
	}
	for _, b := range fn.Blocks {
		na := map[ssa.Value]bool{}
		for _, ta := range asserts {
			if assertDominates(ta, b) && ta.Block() != b {
				na[ta.X] = true
			}
		}
		if len(na) >= 2 {
			both = append(both, b)
		}
	}
	if len(both) == 0 {
		c.Undecided(rule, "super.CompareTypes", "the case of two named types was not found")
		return
	}
	recursive := false
	for _, b := range both {
		for _, in := range b.Instrs {
			if ci, ok := in.(ssa.CallInstruction); ok && ci.Common().StaticCallee() == fn {
				for _, a := range ci.Common().Args {
					if dependsOn(a, func(v ssa.Value) bool {
						fa, ok := v.(*ssa.FieldAddr)
						return ok && namedOf(fa.X.Type()) == "super.TypeNamed" && fieldName(fa.X.Type(), fa.Field) == "Type"
					}) {
						recursive = true
					}
				}
			}
		}
	}
	construct := "super.CompareTypes on two named types"
	if recursive {
		c.OK(rule, construct, both[0].Instrs[0].Pos(), "names first, then the types they name")
	} else {
		c.Fail(rule, construct, fn.Pos(), "two named types are ordered by name alone: A=(B=int64) and A=(C=int64) compare equal, so LookupTypeUnion of the two returns a different union type for each listing order of its members")
	}
}

// ---- C02-M2: the text after a map entry's colon is chosen with the value's type in hand.
//
// In compact form a numeric key, the colon and an IPv6 address, network or time lex as one token
// (`1:::1`, `1:1970-01-01T00:00:00Z`).  Whether white space is needed after the colon depends on
// the value's type; a formatter that decides it from the tab setting alone cannot be right.
func runMapColonSeparator(c *Ctx, rule string) {
	p := c.P
	c.Rule(rule, "in zson.Formatter.formatMap the decision to write white space after an entry's colon depends on the type of the entry's value (the result of the value element helper), not only on the indentation setting: values whose text would fuse with a numeric key are kept apart")
	fn := p.Func("(*zson.Formatter).formatMap")
	if fn == nil {
		c.Undecided(rule, "(*zson.Formatter).formatMap", "anchor does not resolve")
		return
	}
	// the value type: result #0 of the second elemHelper.add call (the one for values)
	var adds []ssa.Value
	for _, ci := range allCalls(fn) {
		if strings.HasSuffix(calleeName(ci.Common()), ").add") {
			if v, ok := ci.(ssa.Value); ok {
				adds = append(adds, v)
			}
		}
	}
	if len(adds) < 2 {
		c.Undecided(rule, "(*zson.Formatter).formatMap", "the key and value element helpers were not found")
		return
	}
	valAdd := adds[len(adds)-1]
	ok := false
	for _, b := range fn.Blocks {
		if len(b.Instrs) == 0 {
			continue
		}
		iff, isIf := b.Instrs[len(b.Instrs)-1].(*ssa.If)
		if !isIf || !dependsOnCtl(iff.Cond, func(v ssa.Value) bool { return v == valAdd }) {
			continue
		}
		// one of its successors writes a single space
		for _, s := range b.Succs {
			for _, in := range s.Instrs {
				if ci, isCall := in.(ssa.CallInstruction); isCall && calleeName(ci.Common()) == "(*zson.Formatter).build" {
					if k, isConst := ci.Common().Args[len(ci.Common().Args)-1].(*ssa.Const); isConst && k.Value != nil && k.Value.Kind() == constant.String && constant.StringVal(k.Value) == " " {
						ok = true
					}
				}
			}
		}
	}
	construct := "(*zson.Formatter).formatMap separator after the colon"
	if ok {
		c.OK(rule, construct, fn.Pos(), "depends on the value's type")
	} else {
		c.Fail(rule, construct, fn.Pos(), "the separator after a map entry's colon does not depend on the value's type: `|{1: ::1}|` is written `|{1:::1}|` and `|{1: 1970-01-01T00:00:00Z}|` as `|{1:1970-01-01T00:00:00Z}|`, each of which lexes key, colon and value as one token and does not parse")
	}
}

// ---- C05-I1: the member lists of registered types are read-only outside package zed.
//
// A type object registered in a Context is shared by every value of that type; its Types /
// Fields / Symbols slices are part of the canonical object (the lookup tables are keyed by the
// serialized form taken when it was registered).  Code outside package zed that wants to edit such
// a list must copy it first.  A slice loaded from one of these fields (or re-sliced / appended
// to, which may keep the backing array) must not be written through, nor handed to a function
// that writes the elements of that parameter.
func runTypeMemberListsReadOnly(c *Ctx, rule string) {
	p := c.P
	c.Rule(rule, "outside package zed, a slice loaded from TypeUnion.Types, TypeRecord.Fields or TypeEnum.Symbols is never stored through (element assignment, copy into, in-place compaction) nor passed to a function that writes the elements of that parameter, unless it went through slices.Clone: registered types stay what their lookup key says they are")
	isSrc := func(v ssa.Value) bool {
		u, ok := v.(*ssa.UnOp)
		if !ok || u.Op != token.MUL {
			return false
		}
		fa, ok := u.X.(*ssa.FieldAddr)
		if !ok {
			return false
		}
		switch namedOf(fa.X.Type()) + "." + fieldName(fa.X.Type(), fa.Field) {
		case "super.TypeUnion.Types", "super.TypeRecord.Fields", "super.TypeEnum.Symbols":
			return true
		}
		return false
	}
	// writes[fn][i]: fn writes elements of parameter i: it stores through an IndexAddr of an alias
	// of the parameter (the parameter, a reslice, a phi or an append result of one), or appends to
	// an alias that went through a reslice (out := p[:0]; out = append(out, x) overwrites p's elements)
	writes := map[*ssa.Function]map[int]bool{}
	for _, fn := range p.Funcs {
		for i, prm := range fn.Params {
			if _, isSlice := prm.Type().Underlying().(*types.Slice); !isSlice {
				continue
			}
			alias := map[ssa.Value]bool{prm: true}
			resliced := map[ssa.Value]bool{}
			work := []ssa.Value{prm}
			wr := false
			for len(work) > 0 {
				v := work[len(work)-1]
				work = work[:len(work)-1]
				if v.Referrers() == nil {
					continue
				}
				for _, r := range *v.Referrers() {
					switch x := r.(type) {
					case *ssa.Slice:
						if x.X == v && !alias[x] {
							alias[x], resliced[x] = true, true
							work = append(work, x)
						}
					case *ssa.Phi:
						if !alias[x] {
							alias[x] = true
							resliced[x] = resliced[x] || resliced[v]
							work = append(work, x)
						} else if resliced[v] && !resliced[x] {
							resliced[x] = true
							work = append(work, x)
						}
					case *ssa.IndexAddr:
						if x.X == v {
							for _, rr := range *x.Referrers() {
								if st, ok := rr.(*ssa.Store); ok && st.Addr == x {
									wr = true
								}
							}
						}
					case *ssa.Call:
						if bi, ok := x.Common().Value.(*ssa.Builtin); ok && bi.Name() == "append" && len(x.Common().Args) > 0 && x.Common().Args[0] == v {
							if resliced[v] {
								wr = true
							}
							if !alias[x] {
								alias[x] = true
								resliced[x] = resliced[v]
								work = append(work, x)
							}
						}
					}
				}
			}
			if wr {
				if writes[fn] == nil {
					writes[fn] = map[int]bool{}
				}
				writes[fn][i] = true
			}
		}
	}
	n := 0
	for _, fn := range p.Funcs {
		pk := p.PkgOf(fn)
		if pk == "" || strings.HasSuffix(p.Pos(fn.Pos()), "_test.go") {
			continue
		}
		// forward taint within fn
		tainted := map[ssa.Value]bool{}
		var work []ssa.Value
		for _, b := range fn.Blocks {
			for _, in := range b.Instrs {
				if v, ok := in.(ssa.Value); ok && isSrc(v) {
					tainted[v] = true
					work = append(work, v)
				}
			}
		}
		if len(work) == 0 {
			continue
		}
		n++
		for len(work) > 0 {
			v := work[len(work)-1]
			work = work[:len(work)-1]
			if v.Referrers() == nil {
				continue
			}
			for _, r := range *v.Referrers() {
				switch x := r.(type) {
				case *ssa.Slice:
					if x.X == v && !tainted[x] {
						tainted[x] = true
						work = append(work, x)
					}
				case *ssa.Phi:
					if !tainted[x] {
						tainted[x] = true
						work = append(work, x)
					}
				case *ssa.Store:
					// stored into a local variable: loads of it are tainted
					if a, ok := x.Addr.(*ssa.Alloc); ok && x.Val == v {
						for _, rr := range *a.Referrers() {
							if ld, ok := rr.(*ssa.UnOp); ok && ld.Op == token.MUL && !tainted[ld] {
								tainted[ld] = true
								work = append(work, ld)
							}
						}
					}
				case *ssa.IndexAddr:
					if x.X != v {
						continue
					}
					for _, rr := range *x.Referrers() {
						if st, ok := rr.(*ssa.Store); ok && st.Addr == x {
							c.Fail(rule, constructName(fn)+" writes into a type's member list", st.Pos(), "an element of a slice taken from a registered type (Types / Fields / Symbols) is assigned: the canonical type object changes under every value and lookup table that shares it")
						}
					}
				case *ssa.Call:
					cc := x.Common()
					if bi, ok := cc.Value.(*ssa.Builtin); ok {
						switch bi.Name() {
						case "append":
							if len(cc.Args) > 0 && cc.Args[0] == v && !tainted[x] {
								tainted[x] = true
								work = append(work, x)
							}
						case "copy":
							if len(cc.Args) > 0 && cc.Args[0] == v {
								c.Fail(rule, constructName(fn)+" writes into a type's member list", x.Pos(), "copy() writes into a slice taken from a registered type")
							}
						}
						continue
					}
					g := cc.StaticCallee()
					if g == nil {
						continue
					}
					if nm := calleeName(cc); nm == "slices.Clone" || strings.HasPrefix(nm, "slices.Clone[") {
						continue
					}
					for i, a := range cc.Args {
						if a == v && writes[g][i] {
							c.Fail(rule, constructName(fn)+" hands a type's member list to a function that writes it", x.Pos(), "a slice taken from a registered type (Types / Fields / Symbols) is passed, without slices.Clone, to "+fnName(g)+", which assigns elements of that parameter: fusing ({a:int64},{b:string}) with one of its own members rewrites the registered union in place to ({a:int64,b:string},{b:string}) while its id, lookup key and type value still describe the old structure")
						}
						// results of module functions that return (a reslice of) this parameter stay tainted
						if a == v && returnsParam(g, i) && !tainted[x] {
							tainted[x] = true
							work = append(work, x)
						}
					}
				}
			}
		}
	}
	if n < 10 {
		c.Undecided(rule, "readers of type member lists", "fewer than ten functions reading Types/Fields/Symbols found ("+sprint(n)+")")
		return
	}
	c.OK(rule, "readers of type member lists", token.NoPos, sprint(n)+" functions outside package zed read a type's member list; none writes through it")
}

// returnsParam: some return of g yields parameter i itself, a reslice of it, or append(param i, ..).
func returnsParam(g *ssa.Function, i int) bool {
	if i >= len(g.Params) {
		return false
	}
	prm := g.Params[i]
	for _, b := range g.Blocks {
		for _, in := range b.Instrs {
			ret, ok := in.(*ssa.Return)
			if !ok {
				continue
			}
			for _, r := range ret.Results {
				if dependsOn(r, func(v ssa.Value) bool { return v == prm }) {
					if _, isSlice := r.Type().Underlying().(*types.Slice); isSlice {
						return true
					}
				}
			}
		}
	}
	return false
}

// ---- C19-K9: create-branch through the service uses the parent commit the client named.
//
// Direct access hands the caller's parent commit to Root.CreateBranch as it is; ksuid.Nil means
// "an empty branch".  The handler must do the same with the request's commit: a parent derived
// from anything the handler reads from the lake (the tip of main, say) gives a different branch
// than direct access for the same call.
func runCreateBranchParentFromRequest(c *Ctx, rule string) {
	p := c.P
	c.Rule(rule, "in service.handleBranchPost the parent commit passed to Root.CreateBranch is computed from the request (parsing its commit field) and from nothing the handler reads from the lake: the zero commit creates an empty branch through the service exactly as it does directly")
	fn := p.Func("service.handleBranchPost")
	if fn == nil {
		c.Undecided(rule, "service.handleBranchPost", "anchor does not resolve")
		return
	}
	n := 0
	for _, ci := range allCalls(fn) {
		if calleeName(ci.Common()) != "(*lake.Root).CreateBranch" {
			continue
		}
		n++
		args := ci.Common().Args
		parent := args[len(args)-1]
		var via string
		dependsOnCtl(parent, func(v ssa.Value) bool {
			call, ok := v.(*ssa.Call)
			if !ok {
				return false
			}
			nm := calleeName(call.Common())
			if strings.HasPrefix(nm, "(*lake.Root).") || strings.HasPrefix(nm, "(*lake.Pool).") || strings.HasPrefix(nm, "(*lake.Branch).") {
				via = nm
				return true
			}
			return false
		})
		construct := "service.handleBranchPost parent commit of the new branch"
		if via != "" {
			c.Fail(rule, construct, ci.Pos(), "the parent commit depends on "+via+": for a request whose commit is the zero id the service creates the branch at main's tip, while direct access (and the client, which sends 27 zeros for ksuid.Nil) means an empty branch - the branch's contents, log and commit object differ from direct access with no error")
		} else {
			c.OK(rule, construct, ci.Pos(), "derived from the request only")
		}
	}
	if n == 0 {
		c.Undecided(rule, "service.handleBranchPost", "the call of Root.CreateBranch was not found")
	}
}

// ---- C02-D2: the ZSON parser's depth counter is balanced.
//
// Parser.enter / Parser.leave bound the nesting depth.  If a path from a successful enter to a
// return skips leave, every value that takes this path leaks one level for the life of the parser
// - a whole zsonio stream - and after about ten thousand empty arrays the reader rejects valid
// input with "nesting deeper than 10000 levels".
func runDepthCounterBalanced(c *Ctx, rule string) {
	p := c.P
	c.Rule(rule, "in every function of package zson that calls Parser.enter, leave is deferred right after the tested enter, or every path from the enter to a return passes a call of leave: the depth counter returns to its value on every exit, so a long stream is not rejected for nesting it does not have")
	n := 0
	for _, fn := range p.FuncsIn("zson") {
		for _, ci := range allCalls(fn) {
			if calleeName(ci.Common()) != "(*zson.Parser).enter" {
				continue
			}
			n++
			construct := constructName(fn) + " pairs enter with leave"
			isLeave := func(in ssa.Instruction) bool {
				switch x := in.(type) {
				case *ssa.Defer:
					return calleeName(&x.Call) == "(*zson.Parser).leave"
				case ssa.CallInstruction:
					return calleeName(x.Common()) == "(*zson.Parser).leave"
				}
				return false
			}
			// returns taken because enter itself failed do not owe a leave
			enterVal, _ := ci.(ssa.Value)
			isRet := func(in ssa.Instruction) bool {
				ret, ok := in.(*ssa.Return)
				if !ok {
					return false
				}
				if enterVal != nil {
					for _, r := range *enterVal.Referrers() {
						if cmp, ok := r.(*ssa.BinOp); ok && (isNilConst(cmp.X) || isNilConst(cmp.Y)) {
							if cmp.Op == token.NEQ && trueEdgeDominatesOrSelf(cmp, ret.Block()) {
								return false
							}
							if cmp.Op == token.EQL && falseEdgeDominatesOrSelf(cmp, ret.Block()) {
								return false
							}
						}
					}
				}
				return true
			}
			if bad := reachAvoiding(fn, ci.(ssa.Instruction), isLeave, isRet); bad != nil {
				c.Fail(rule, construct, bad.Pos(), "a return is reachable from a successful enter without leave: each value taking this path (the probe for a first element of an empty array, set or map) leaks one nesting level for the life of the parser, and a stream of 3400 records with three empty containers each is rejected with `nesting deeper than 10000 levels`")
			} else {
				c.OK(rule, construct, ci.Pos(), "leave on every path")
			}
		}
	}
	if n < 2 {
		c.Undecided(rule, "zson depth counter", "fewer than the two known enter sites found ("+sprint(n)+")")
	}
}

// ---- C17-A1: one request, one commit.
//
// An operation on a list of objects (delete, vector add, vector delete, compaction, load) is
// atomic because it is recorded by a single commit: a crash leaves all of it or none.  Committing
// inside a loop over the list (one commit per object) makes an interrupted request partly visible.
func runOneCommitPerRequest(c *Ctx, rule string) {
	p := c.P
	c.Rule(rule, "no method of lake.Branch calls Branch.commit (directly or through another Branch method) inside a loop: a request over several objects becomes visible through one commit point, so a crash leaves it complete or absent")
	n := 0
	for _, fn := range p.FuncsIn("lake") {
		if fn.Signature.Recv() == nil || namedOf(fn.Signature.Recv().Type()) != "lake.Branch" || fn.Parent() != nil {
			continue
		}
		for _, ci := range allCalls(fn) {
			g := ci.Common().StaticCallee()
			if g == nil || g.Signature.Recv() == nil || namedOf(g.Signature.Recv().Type()) != "lake.Branch" {
				continue
			}
			commits := g.Name() == "commit"
			if !commits {
				for _, cj := range allCalls(g) {
					if calleeName(cj.Common()) == "(*lake.Branch).commit" {
						commits = true
					}
				}
			}
			if !commits {
				continue
			}
			n++
			construct := fnName(fn) + " commits once"
			if inCycle(fn, ci.(ssa.Instruction)) {
				c.Fail(rule, construct, ci.Pos(), "the commit is made inside a loop: `vector add id1 id2` interrupted after the first commit point leaves main with one of the two vectors, neither the state before nor the state after the request")
			} else {
				c.OK(rule, construct, ci.Pos(), "single commit point")
			}
		}
	}
	if n < 5 {
		c.Undecided(rule, "lake.Branch commit points", "fewer than five committing methods found ("+sprint(n)+")")
	}
}

// ---- C02-J1: a repeated field name is resolved as the JSON reader resolves it.
//
// Valid JSON may repeat a key.  The JSON reader keeps the last value, in the position of the
// first (ECMAScript, jq).  The ZSON parser reads the same text, so on a name it has already seen
// it must overwrite the earlier field, not drop the later one.
func runDuplicateFieldsLastWins(c *Ctx, rule string) {
	p := c.P
	c.Rule(rule, "in zson.Parser.matchFields the branch taken for a field name seen before stores the new field over the earlier one: `{\"a\":1,\"a\":2}` is {a:2} for both the ZSON and the JSON reader")
	fn := p.Func("(*zson.Parser).matchFields")
	if fn == nil {
		c.Undecided(rule, "(*zson.Parser).matchFields", "anchor does not resolve")
		return
	}
	found, ok := false, false
	for _, b := range fn.Blocks {
		for _, in := range b.Instrs {
			lk, isLk := in.(*ssa.Lookup)
			if !isLk || !lk.CommaOk {
				continue
			}
			found = true
			for _, r := range *lk.Referrers() {
				ex, isEx := r.(*ssa.Extract)
				if !isEx || ex.Index != 1 {
					continue
				}
				for _, bb := range fn.Blocks {
					if !trueEdgeDominatesOrSelf(ex, bb) {
						continue
					}
					for _, ii := range bb.Instrs {
						if st, isSt := ii.(*ssa.Store); isSt {
							if _, isIA := st.Addr.(*ssa.IndexAddr); isIA {
								ok = true
							}
						}
					}
				}
			}
		}
	}
	construct := "(*zson.Parser).matchFields on a repeated field name"
	switch {
	case !found:
		c.Undecided(rule, construct, "the lookup of names already seen was not found")
	case ok:
		c.OK(rule, construct, fn.Pos(), "the later field replaces the earlier one in place")
	default:
		c.Fail(rule, construct, fn.Pos(), "a field whose name was seen before is dropped: `{\"a\":1,\"a\":2}` reads as {a:1} through the ZSON reader and as {a:2} through the JSON reader, although every valid JSON text must denote the same value for both")
	}
}

// ---- C02-S3: a set literal is analysed into a set node.
//
// Only zson.Set nodes are normalised by the builder (sorted, duplicates dropped).  convertSet
// returning any other node kind for a decorated set hands out a value whose bytes are not a valid
// set.
func runSetLiteralsBecomeSetNodes(c *Ctx, rule string) {
	p := c.P
	c.Rule(rule, "every node zson.Analyzer.convertSet returns is a *zson.Set (the node kind the builder normalises): a decorated set literal `|[3,1,2]|(|[int64]|)` yields sorted, duplicate-free set bytes like an undecorated one")
	fn := p.Func("(zson.Analyzer).convertSet")
	if fn == nil {
		c.Undecided(rule, "(zson.Analyzer).convertSet", "anchor does not resolve")
		return
	}
	n, bad := 0, 0
	for _, b := range fn.Blocks {
		for _, in := range b.Instrs {
			ret, ok := in.(*ssa.Return)
			if !ok || len(ret.Results) != 2 || !isNilConst(ret.Results[1]) {
				continue
			}
			mi, ok := ret.Results[0].(*ssa.MakeInterface)
			if !ok {
				continue
			}
			n++
			if nm := namedOf(mi.X.Type()); nm != "zson.Set" {
				bad++
				c.Fail(rule, "(zson.Analyzer).convertSet returns a "+nm+" node", ret.Pos(), "a set literal is turned into a node the builder does not normalise: `|[3,1,2]|(|[int64]|)` becomes a set value whose elements are unsorted (Validate: set elements not sorted), so ==, `in` and group-by on it disagree with the same set read from ZNG")
			}
		}
	}
	switch {
	case n == 0:
		c.Undecided(rule, "(zson.Analyzer).convertSet", "no successful return found")
	case bad == 0:
		c.OK(rule, "(zson.Analyzer).convertSet node kinds", fn.Pos(), sprint(n)+" successful returns, all *zson.Set")
	}
}

// ---- C11-V3: validation descends into every container it checks.
//
// Value.Validate walks the value and applies extra checks to sets and enums.  The visitor may
// return SkipContainer only for a value that has nothing below it (an enum); returning it for a
// set ends the walk there, so a set of enums, of sets or of records is never looked into and a
// malformed element passes validation only to make a formatter panic.
func runValidateDescendsIntoSets(c *Ctx, rule string) {
	p := c.P
	c.Rule(rule, "the visitor of zed.Value.Validate returns SkipContainer only where the visited type was asserted to be an enum: sets (and every other container) are walked into, so what passes validation is consistent at every depth")
	fn := p.Func("(super.Value).Validate")
	if fn == nil {
		c.Undecided(rule, "(super.Value).Validate", "anchor does not resolve")
		return
	}
	n, bad := 0, 0
	fns := append([]*ssa.Function{fn}, fn.AnonFuncs...)
	for _, f := range fns {
		var enumAsserts, setAsserts []*ssa.TypeAssert
		for _, b := range f.Blocks {
			for _, in := range b.Instrs {
				if ta, ok := in.(*ssa.TypeAssert); ok {
					switch namedOf(ta.AssertedType) {
					case "super.TypeEnum":
						enumAsserts = append(enumAsserts, ta)
					case "super.TypeSet":
						setAsserts = append(setAsserts, ta)
					}
				}
			}
		}
		for _, b := range f.Blocks {
			for _, in := range b.Instrs {
				ret, ok := in.(*ssa.Return)
				if !ok || len(ret.Results) != 1 {
					continue
				}
				skips := dependsOn(ret.Results[0], func(v ssa.Value) bool {
					g, ok := v.(*ssa.Global)
					return ok && g.Name() == "SkipContainer"
				})
				if !skips {
					continue
				}
				n++
				underEnum := false
				for _, ta := range enumAsserts {
					if assertDominates(ta, b) {
						underEnum = true
					}
				}
				if !underEnum {
					bad++
					c.Fail(rule, "(super.Value).Validate skips a container", ret.Pos(), "the validation visitor returns SkipContainer for a value that is not an enum: the elements of that container (a set) are never visited, so a set holding an enum with selector 7 of 2 passes Validate and the ZSON writer panics with index out of range")
				}
			}
		}
		_ = setAsserts
	}
	if bad == 0 {
		c.OK(rule, "(super.Value).Validate skips a container", fn.Pos(), sprint(n)+" SkipContainer returns, all for enums")
	}
}

// ---- C17-M1 / sweep: the value a Read returned is tested for nil before it is dereferenced.
//
// zio.Reader.Read returns (nil, nil) at end of input.  Code that expects exactly one value in a
// file (the lake's version file) and dereferences the result unconditionally panics on an empty
// file, which is what a crash between the creation and the filling of that file leaves behind.
func runReadResultsNilTested(c *Ctx, rule string) {
	p := c.P
	c.Rule(rule, "in the lake packages (C17) / the reader packages (C11), a *zed.Value obtained from a Read() (*zed.Value, error) call is dereferenced only where it was compared with nil: an empty metadata file or section is an error, not a nil-pointer panic")
	n := 0
	pkgs := []string{"lake", "lake/journal", "lake/commits", "lake/branches", "lake/pools", "lake/data"}
	if strings.HasPrefix(rule, "C11") {
		pkgs = c11ReaderPkgs
	}
	if rule == "XREF-read-deref" {
		pkgs = nil
		for k := range p.Pkgs {
			pkgs = append(pkgs, k)
		}
	}
	for _, fn := range p.FuncsIn(pkgs...) {
		for _, ci := range allCalls(fn) {
			cc := ci.Common()
			name := ""
			if cc.IsInvoke() {
				name = cc.Method.Name()
			} else if g := cc.StaticCallee(); g != nil {
				name = g.Name()
			}
			if name != "Read" {
				continue
			}
			sig := calleeSig(cc)
			if sig == nil || sig.Results().Len() != 2 || !isError(sig.Results().At(1).Type()) {
				continue
			}
			if pt, ok := sig.Results().At(0).Type().(*types.Pointer); !ok || namedOf(pt.Elem()) != "super.Value" {
				continue
			}
			tuple, ok := ci.(ssa.Value)
			if !ok {
				continue
			}
			for _, r := range *tuple.Referrers() {
				ex, ok := r.(*ssa.Extract)
				if !ok || ex.Index != 0 {
					continue
				}
				var tests []*ssa.BinOp
				var derefs []ssa.Instruction
				var visit func(v ssa.Value, depth int)
				seen := map[ssa.Value]bool{}
				visit = func(v ssa.Value, depth int) {
					if seen[v] || depth > 4 {
						return
					}
					seen[v] = true
					for _, rr := range *v.Referrers() {
						switch x := rr.(type) {
						case *ssa.BinOp:
							if isNilConst(x.X) || isNilConst(x.Y) {
								tests = append(tests, x)
							}
						case *ssa.UnOp:
							if x.Op == token.MUL && x.X == v {
								derefs = append(derefs, x)
							}
						case *ssa.Phi:
							visit(x, depth+1)
						}
					}
				}
				visit(ex, 0)
				for _, d := range derefs {
					n++
					ok := false
					for _, t := range tests {
						switch t.Op {
						case token.NEQ:
							ok = ok || trueEdgeDominatesOrSelf(t, d.Block())
						case token.EQL:
							ok = ok || falseEdgeDominatesOrSelf(t, d.Block())
						}
					}
					if !ok {
						c.Fail(rule, constructName(fn)+" dereferences a Read result untested", d.Pos(), "the value returned by Read is dereferenced without having been compared with nil: Read returns (nil, nil) at end of input, so an empty file or section (a `lake.zng` torn by a crash between its creation and its filling, a VNG metadata section holding no value) makes the caller panic with a nil pointer dereference instead of reporting corrupt input")
					}
				}
			}
		}
	}
	if rule != "XREF-read-deref" {
		c.OK(rule, "dereferences of Read results", token.NoPos, sprint(n)+" dereferences examined")
	}
}

// ---- C02-Q2: an enum symbol is written bare only if it is an identifier.
//
// `%name` is the text form of an enum value whose symbol is an identifier.  Any string can be a
// symbol; one that is not an identifier must be written as a quoted string (which the enum
// decorator turns back into the symbol), otherwise `%a b(enum("a b",c))` does not parse.
func runEnumSymbolsQuoted(c *Ctx, rule string) {
	p := c.P
	c.Rule(rule, "in zson.Formatter.formatValue a symbol taken from TypeEnum.Symbols reaches the output either through QuotedString or on the true edge of IsIdentifier(symbol): enum values whose symbols are not identifiers still round-trip")
	fn := p.Func("(*zson.Formatter).formatValue")
	if fn == nil {
		c.Undecided(rule, "(*zson.Formatter).formatValue", "anchor does not resolve")
		return
	}
	isSym := func(v ssa.Value) bool {
		u, ok := v.(*ssa.UnOp)
		if !ok || u.Op != token.MUL {
			return false
		}
		ia, ok := u.X.(*ssa.IndexAddr)
		if !ok {
			return false
		}
		return dependsOn(ia.X, func(w ssa.Value) bool {
			fa, ok := w.(*ssa.FieldAddr)
			return ok && namedOf(fa.X.Type()) == "super.TypeEnum" && fieldName(fa.X.Type(), fa.Field) == "Symbols"
		})
	}
	isQuote := func(v ssa.Value) bool {
		call, ok := v.(*ssa.Call)
		return ok && (calleeName(call.Common()) == "zson.QuotedString" || calleeName(call.Common()) == "zson.QuotedName")
	}
	n, bad := 0, 0
	for _, ci := range allCalls(fn) {
		if calleeName(ci.Common()) != "(*zson.Formatter).build" {
			continue
		}
		arg := ci.Common().Args[len(ci.Common().Args)-1]
		if !dependsOnUnless(arg, isSym, isQuote) {
			continue
		}
		n++
		guarded := false
		for _, cj := range allCalls(fn) {
			if calleeName(cj.Common()) == "zson.IsIdentifier" && dependsOn(cj.Common().Args[0], isSym) {
				if v, ok := cj.(ssa.Value); ok && trueEdgeDominatesOrSelf(v, ci.(ssa.Instruction).Block()) {
					guarded = true
				}
			}
		}
		if !guarded {
			bad++
			c.Fail(rule, "(*zson.Formatter).formatValue writes an enum symbol bare", ci.Pos(), "the symbol is written after `%` whatever it contains: the value \"a b\" of enum(\"a b\",c) is written `%a b(enum(\"a b\",c))`, which does not parse")
		}
	}
	if bad == 0 {
		c.OK(rule, "(*zson.Formatter).formatValue writes an enum symbol bare", fn.Pos(), sprint(n)+" bare writes, all under IsIdentifier")
	}
}

// ---- C09-B1: loops over a bitmap's words are bounded by its words.
//
// vector.Bool keeps one bit per slot in Bits []uint64.  A loop that indexes Bits must run over
// the number of words, not over Len() (the number of slots): with two or more slots the second
// index is already past the single word.
func runBitmapWordLoops(c *Ctx, rule string) {
	p := c.P
	c.Rule(rule, "in package vector, an index into a Bool's Bits inside a loop is not bounded by a slot count (a Len() result): Bits has one word per 64 slots, so a slot-bounded loop indexes out of range from the second slot on")
	n := 0
	for _, fn := range p.FuncsIn("vector") {
		for _, b := range fn.Blocks {
			for _, in := range b.Instrs {
				ia, ok := in.(*ssa.IndexAddr)
				if !ok || !inCycle(fn, in) {
					continue
				}
				isBits := dependsOn(ia.X, func(v ssa.Value) bool {
					fa, ok := v.(*ssa.FieldAddr)
					return ok && namedOf(fa.X.Type()) == "vector.Bool" && fieldName(fa.X.Type(), fa.Field) == "Bits"
				})
				if !isBits {
					continue
				}
				var phis []ssa.Value
				dependsOn(ia.Index, func(v ssa.Value) bool {
					if _, ok := v.(*ssa.Phi); ok {
						phis = append(phis, v)
					}
					return false
				})
				if len(phis) == 0 {
					continue
				}
				n++
				// a loop condition that relates the index to a slot count
				onIndex := func(v ssa.Value) bool {
					return dependsOn(v, func(w ssa.Value) bool {
						for _, ph := range phis {
							if w == ph {
								return true
							}
						}
						return false
					})
				}
				isLenCall := func(v ssa.Value) bool {
					call, ok := stripConv(v).(*ssa.Call)
					return ok && strings.HasSuffix(calleeName(call.Common()), ").Len") && strings.HasPrefix(calleeName(call.Common()), "(*vector.")
				}
				slotBound := false
				for _, bb := range fn.Blocks {
					for _, ii := range bb.Instrs {
						cmp, ok := ii.(*ssa.BinOp)
						if !ok {
							continue
						}
						switch cmp.Op {
						case token.LSS, token.LEQ, token.GTR, token.GEQ, token.NEQ:
						default:
							continue
						}
						if (onIndex(cmp.X) && isLenCall(cmp.Y) && !onIndex(cmp.Y)) || (onIndex(cmp.Y) && isLenCall(cmp.X) && !onIndex(cmp.X)) {
							slotBound = true
						}
					}
				}
				construct := constructName(fn) + " indexes Bits in a loop"
				if slotBound {
					c.Fail(rule, construct, ia.Pos(), "the word index runs up to a slot count (Len()): for vectors of two or more slots the loop indexes Bits out of range - vector.Or of the nulls of an error vector and of its payload panics")
				} else {
					c.OK(rule, construct, ia.Pos(), "bounded by the words")
				}
			}
		}
	}
	if n == 0 {
		c.Undecided(rule, "loops over vector.Bool.Bits", "no loop indexing Bits found")
	}
}

// ---- C10-P4: an aggregate that can emit a null partial can take one back.
//
// When a group-by table spills (or a plan is parallel), each aggregate's ResultAsPartial is
// written out and later handed to ConsumeAsPartial of a fresh instance.  A group that consumed no
// value yields a null partial.  An aggregate whose ResultAsPartial can return a null must test
// its partial for null (itself or in the helper it delegates to) before it decodes or keeps it.
func runNullPartialsAccepted(c *Ctx, rule string) {
	p := c.P
	c.Rule(rule, "for every agg.Function whose ResultAsPartial (or the Result it returns) can yield a null value, ConsumeAsPartial - or a same-package function it passes the partial to - calls IsNull on the partial: the partial of a group that consumed nothing is accepted, in memory and after a spill alike")
	af := ifaceType(p, "runtime/sam/expr/agg", "Function")
	if af == nil {
		c.Undecided(rule, "agg.Function", "anchor interface does not resolve")
		return
	}
	returnsNull := func(fn *ssa.Function, depth int) bool { return false }
	var rn func(fn *ssa.Function, depth int) bool
	rn = func(fn *ssa.Function, depth int) bool {
		if fn == nil || depth > 2 {
			return false
		}
		for _, b := range fn.Blocks {
			for _, in := range b.Instrs {
				ret, ok := in.(*ssa.Return)
				if !ok || len(ret.Results) != 1 {
					continue
				}
				r := ret.Results[0]
				if u, ok := r.(*ssa.UnOp); ok && u.Op == token.MUL {
					if g, ok := u.X.(*ssa.Global); ok && (g.Name() == "Null" || g.Name() == "NullType" || strings.HasPrefix(g.Name(), "Null")) {
						return true
					}
				}
				if call, ok := r.(*ssa.Call); ok {
					if calleeName(call.Common()) == "super.NewValue" && len(call.Common().Args) == 2 && isNilConst(call.Common().Args[1]) {
						return true
					}
					if g := call.Common().StaticCallee(); g != nil && p.PkgOf(g) == "runtime/sam/expr/agg" && rn(g, depth+1) {
						return true
					}
				}
			}
		}
		return false
	}
	returnsNull = rn
	var testsNull func(fn *ssa.Function, param ssa.Value, depth int) bool
	testsNull = func(fn *ssa.Function, param ssa.Value, depth int) bool {
		if depth > 2 {
			return false
		}
		for _, ci := range allCalls(fn) {
			cc := ci.Common()
			nm := calleeName(cc)
			if (nm == "(super.Value).IsNull" || nm == "(*super.Value).IsNull") && len(cc.Args) > 0 && dependsOn(cc.Args[0], func(v ssa.Value) bool { return v == param }) {
				return true
			}
			// len(val.Bytes()) == 0 is the other idiom for "null (or empty)"
			if (nm == "(super.Value).Bytes" || nm == "(*super.Value).Bytes") && len(cc.Args) > 0 && dependsOn(cc.Args[0], func(v ssa.Value) bool { return v == param }) {
				if bv, ok := ci.(ssa.Value); ok {
					for _, r := range *bv.Referrers() {
						if call, ok := r.(*ssa.Call); ok {
							if bi, ok := call.Call.Value.(*ssa.Builtin); ok && bi.Name() == "len" {
								for _, rr := range *call.Referrers() {
									if _, ok := rr.(*ssa.BinOp); ok {
										return true
									}
								}
							}
						}
					}
				}
			}
			if g := cc.StaticCallee(); g != nil && p.PkgOf(g) == "runtime/sam/expr/agg" {
				for i, a := range cc.Args {
					if i < len(g.Params) && dependsOn(a, func(v ssa.Value) bool { return v == param }) && testsNull(g, g.Params[i], depth+1) {
						return true
					}
				}
			}
		}
		return false
	}
	n := 0
	var names []string
	byName := map[string]*ssa.Function{}
	for _, fn := range p.FuncsIn("runtime/sam/expr/agg") {
		if fn.Parent() != nil || fn.Signature.Recv() == nil {
			continue
		}
		rt := fn.Signature.Recv().Type()
		if !types.Implements(rt, af) && !types.Implements(types.NewPointer(rt), af) {
			continue
		}
		byName[fnName(fn)] = fn
		if fn.Name() == "ResultAsPartial" {
			names = append(names, fnName(fn))
		}
	}
	sort.Strings(names)
	for _, nm := range names {
		rp := byName[nm]
		cp := byName[strings.TrimSuffix(nm, "ResultAsPartial")+"ConsumeAsPartial"]
		if cp == nil || len(cp.Params) < 2 {
			continue
		}
		if !returnsNull(rp, 0) {
			continue
		}
		n++
		construct := fnName(cp) + " accepts a null partial"
		if testsNull(cp, cp.Params[1], 0) {
			c.OK(rule, construct, cp.Pos(), "tests the partial for null")
		} else {
			c.Fail(rule, construct, cp.Pos(), "ResultAsPartial of this aggregate can return a null, but ConsumeAsPartial never tests its argument for null: `fuse(x) by key` over {key:\"a\"} {key:\"b\"} {key:\"a\",x:1} works in memory and panics with `invalid partial value: bad type value encoding` as soon as the table spills (`with -limit 1`)")
		}
	}
	if n == 0 {
		c.Undecided(rule, "aggregates with null partials", "no aggregate whose partial result can be null was found")
	}
}

// ---- C03-K2: the vector cache can load every type the VNG writer stores as a primitive column.
//
// vng.NewEncoder sends every type that is not a record, array, set, map, union, error or named
// type to the primitive encoder; that is every TypeOf* singleton of package zed and enum types.
// The vector cache dispatches on the column's type in loadVals, loadDict and empty, each ending in
// a panic: a type missing from one of them kills the process when such a column is read.
func runVcachePrimitiveCoverage(c *Ctx, rule string) {
	p := c.P
	c.Rule(rule, "every primitive type of package zed (the TypeOf* singletons) and *zed.TypeEnum has a case in each of the vector cache's type dispatches loadVals, loadDict and empty: any column the VNG writer can produce can be read back through the cache")
	zp := p.Pkgs[""]
	if zp == nil {
		c.Undecided(rule, "package zed", "root package not loaded")
		return
	}
	want := map[string]bool{"super.TypeEnum": true}
	scope := zp.Types.Scope()
	for _, nm := range scope.Names() {
		if tn, ok := scope.Lookup(nm).(*types.TypeName); ok && strings.HasPrefix(nm, "TypeOf") {
			if _, isStruct := tn.Type().Underlying().(*types.Struct); isStruct {
				want["super."+nm] = true
			}
		}
	}
	if len(want) < 15 {
		c.Undecided(rule, "package zed", "fewer than 15 primitive types found")
		return
	}
	for _, name := range []string{"(*runtime/vcache.loader).loadVals", "(*runtime/vcache.loader).loadDict", "runtime/vcache.empty"} {
		fn := p.Func(name)
		if fn == nil {
			c.Undecided(rule, name, "anchor does not resolve")
			continue
		}
		have := map[string]bool{}
		for _, b := range fn.Blocks {
			for _, in := range b.Instrs {
				if ta, ok := in.(*ssa.TypeAssert); ok {
					have[namedOf(ta.AssertedType)] = true
				}
			}
		}
		// the writer builds no dictionary for 8-bit types (NewPrimitiveEncoder), and a column of
		// type null has no values to put in one
		exempt := map[string]bool{}
		if strings.HasSuffix(name, "loadDict") {
			exempt["super.TypeOfBool"], exempt["super.TypeOfNull"] = true, true
		}
		var missing []string
		for w := range want {
			if !have[w] && !exempt[w] {
				missing = append(missing, strings.TrimPrefix(w, "super."))
			}
		}
		sort.Strings(missing)
		construct := fnName(fn) + " type dispatch"
		if len(missing) == 0 {
			c.OK(rule, construct, fn.Pos(), sprint(len(want))+" primitive types covered")
		} else {
			c.Fail(rule, construct+" lacks "+strings.Join(missing, ", "), fn.Pos(), "a column of this type is written by the VNG writer and read by the row reader, but the vector cache's dispatch falls into its panic: `{e:%a(enum(a,b))}` written to VNG kills `super dev vector copy` (and any vectorized lake query that loads the column) with `bad or unknown Zed type for vector`")
		}
	}
}

// ---- C06-R1: the sort operator's comparator is built once.
//
// sort.Op.setComparator applies -r by flipping the Order of the key evaluators in place, and
// with explicit keys those evaluators are the operator's own o.fieldResolvers.  It is therefore
// not idempotent: as long as it writes into that slice, o.comparator must be assigned only there
// (never reset), or every second stream of a lateral sort comes out in the opposite direction.
func runSortComparatorBuiltOnce(c *Ctx, rule string) {
	p := c.P
	c.Rule(rule, "while sort.Op.setComparator writes into the operator's key evaluators in place, the field Op.comparator is stored only by setComparator: the comparator is built once per operator, so `-r` is applied once and every stream is sorted in the configured direction")
	sc := p.Func("(*runtime/sam/op/sort.Op).setComparator")
	if sc == nil {
		c.Undecided(rule, "(*runtime/sam/op/sort.Op).setComparator", "anchor does not resolve")
		return
	}
	inPlace := false
	for _, b := range sc.Blocks {
		for _, in := range b.Instrs {
			st, ok := in.(*ssa.Store)
			if !ok {
				continue
			}
			if dependsOn(st.Addr, func(v ssa.Value) bool {
				fa, ok := v.(*ssa.FieldAddr)
				return ok && fa.X == sc.Params[0] && fieldName(fa.X.Type(), fa.Field) == "fieldResolvers"
			}) {
				if _, isIA := st.Addr.(*ssa.FieldAddr); isIA {
					if ia, ok := st.Addr.(*ssa.FieldAddr).X.(*ssa.IndexAddr); ok && ia != nil {
						inPlace = true
					}
				}
			}
		}
	}
	if !inPlace {
		c.OK(rule, "sort.Op comparator construction", sc.Pos(), "setComparator no longer edits the operator's key evaluators in place; rebuilding it is harmless")
		return
	}
	n, bad := 0, 0
	for _, fn := range p.FuncsIn("runtime/sam/op/sort") {
		for _, b := range fn.Blocks {
			for _, in := range b.Instrs {
				st, ok := in.(*ssa.Store)
				if !ok {
					continue
				}
				fa, ok := st.Addr.(*ssa.FieldAddr)
				if !ok || namedOf(fa.X.Type()) != "runtime/sam/op/sort.Op" || fieldName(fa.X.Type(), fa.Field) != "comparator" {
					continue
				}
				n++
				if fn != sc {
					bad++
					c.Fail(rule, constructName(fn)+" stores Op.comparator", st.Pos(), "the comparator is reset outside setComparator, which flips the key orders in place each time it runs: in `over v => (sort -r k)` the second, fourth, ... stream is emitted ascending")
				}
			}
		}
	}
	switch {
	case n == 0:
		c.Undecided(rule, "sort.Op comparator construction", "no store to Op.comparator found")
	case bad == 0:
		c.OK(rule, "sort.Op comparator construction", sc.Pos(), "stored only by setComparator")
	}
}

// ---- C03-F2: a column's nulls are marked loaded only when they are.
//
// nulls.fetch uses n.meta == nil as "already loaded".  The marker may be set only once the run
// lengths were read to their end; set earlier, a transient read error leaves the node marked
// loaded with an empty bitmap and every later fetch of the cached object returns the column
// without its nulls.
func runNullsMarkedLoadedAtEOF(c *Ctx, rule string) {
	p := c.P
	c.Rule(rule, "in vcache.nulls.fetch the store that clears n.meta (the loaded marker) is on the true edge of the comparison of the read error with io.EOF: a failed read leaves the nulls to be fetched again")
	fn := p.Func("(*runtime/vcache.nulls).fetch")
	if fn == nil {
		c.Undecided(rule, "(*runtime/vcache.nulls).fetch", "anchor does not resolve")
		return
	}
	n, bad := 0, 0
	for _, f := range append([]*ssa.Function{fn}, fn.AnonFuncs...) {
		var eofTests []*ssa.BinOp
		for _, b := range f.Blocks {
			for _, in := range b.Instrs {
				if cmp, ok := in.(*ssa.BinOp); ok && cmp.Op == token.EQL {
					for _, side := range []ssa.Value{cmp.X, cmp.Y} {
						if u, ok := side.(*ssa.UnOp); ok {
							if g, ok := u.X.(*ssa.Global); ok && g.Name() == "EOF" {
								eofTests = append(eofTests, cmp)
							}
						}
					}
				}
			}
		}
		for _, b := range f.Blocks {
			for _, in := range b.Instrs {
				st, ok := in.(*ssa.Store)
				if !ok || !isNilConst(st.Val) {
					continue
				}
				fa, ok := st.Addr.(*ssa.FieldAddr)
				if !ok || namedOf(fa.X.Type()) != "runtime/vcache.nulls" || fieldName(fa.X.Type(), fa.Field) != "meta" {
					continue
				}
				n++
				ok = false
				for _, t := range eofTests {
					if trueEdgeDominatesOrSelf(t, b) {
						ok = true
					}
				}
				if !ok {
					bad++
					c.Fail(rule, "(*runtime/vcache.nulls).fetch marks the nulls loaded", st.Pos(), "n.meta is cleared before the run lengths were read to the end: after one failed ReadAt the node stays marked as loaded with an empty bitmap, and the next fetch of the cached object returns `{a:1,s:\"x\"}` for `{a:1,s:null(string)}`")
				}
			}
		}
	}
	switch {
	case n == 0:
		c.Undecided(rule, "(*runtime/vcache.nulls).fetch", "the store clearing n.meta was not found")
	case bad == 0:
		c.OK(rule, "(*runtime/vcache.nulls).fetch marks the nulls loaded", fn.Pos(), "only at end of the run lengths")
	}
}

// ---- C01-O9: only pooled buffers are returned to the pool.
//
// zngio's buffer.free() puts the buffer's bytes into a sync.Pool for reuse by later frames.  A
// buffer literal built around bytes the parser merely borrows (the peeker's read buffer) must
// never reach free(): the peeker would keep parsing memory that later frames are decompressed into.
func runOnlyPooledBuffersFreed(c *Ctx, rule string) {
	p := c.P
	c.Rule(rule, "in package zngio a buffer constructed by a struct literal outside the pool's own constructors (newBuffer, newBufferFromBytes) never flows - through assignments or phis - to a call or defer of buffer.free: bytes borrowed from the peeker are not handed to the buffer pool")
	n := 0
	for _, fn := range p.FuncsIn("zio/zngio") {
		if strings.HasPrefix(fn.Name(), "newBuffer") {
			continue
		}
		for _, b := range fn.Blocks {
			for _, in := range b.Instrs {
				al, ok := in.(*ssa.Alloc)
				if !ok || namedOf(al.Type()) != "zio/zngio.buffer" {
					continue
				}
				// a literal: some field of it is stored in this function
				lit := false
				for _, r := range *al.Referrers() {
					if fa, ok := r.(*ssa.FieldAddr); ok {
						for _, rr := range *fa.Referrers() {
							if _, ok := rr.(*ssa.Store); ok {
								lit = true
							}
						}
					}
				}
				if !lit {
					continue
				}
				n++
				construct := "borrowed buffer built in " + constructName(fn)
				seen := map[ssa.Value]bool{}
				var freed ssa.Instruction
				var walk func(v ssa.Value)
				walk = func(v ssa.Value) {
					if seen[v] || freed != nil || v.Referrers() == nil {
						return
					}
					seen[v] = true
					for _, r := range *v.Referrers() {
						switch x := r.(type) {
						case *ssa.Phi:
							walk(x)
						case *ssa.Store:
							if a, ok := x.Addr.(*ssa.Alloc); ok && x.Val == v {
								for _, rr := range *a.Referrers() {
									if ld, ok := rr.(*ssa.UnOp); ok && ld.Op == token.MUL {
										walk(ld)
									}
								}
							}
						case *ssa.Defer:
							if calleeName(&x.Call) == "(*zio/zngio.buffer).free" && len(x.Call.Args) > 0 && x.Call.Args[0] == v {
								freed = x
							}
						case ssa.CallInstruction:
							if calleeName(x.Common()) == "(*zio/zngio.buffer).free" && len(x.Common().Args) > 0 && x.Common().Args[0] == v {
								freed = x
							}
						}
					}
				}
				walk(al)
				if freed != nil {
					c.Fail(rule, construct, freed.Pos(), "a buffer wrapped around borrowed bytes reaches buffer.free(): when the types frame's slice has the capacity of a pooled buffer (a read buffer of 512 KiB or more), the peeker's own read buffer goes into the pool and later frames are decompressed into memory the parser is still reading - `unknown ZNG message frame type`, `malformed zng record` or silently wrong bytes")
				} else {
					c.OK(rule, construct, al.Pos(), "never freed")
				}
			}
		}
	}
	if n == 0 {
		c.OK(rule, "borrowed buffers in zio/zngio", token.NoPos, "no buffer literal outside the pool constructors")
	}
}

// ---- C09-B2: no bitmap shift by a count that can reach the word width.
//
// In Go, shifting a uint64 by 64 yields 0.  A mask computed as `^uint64(0) >> (64 - n&63)` is
// therefore empty, not full, exactly when n is a multiple of 64 - the classic off-by-a-word in
// range operations on bitmaps: a null run ending on a 64-slot boundary loses the nulls of its
// last word.
func runBitmapShiftCounts(c *Ctx, rule string) {
	p := c.P
	c.Rule(rule, "in packages vector and runtime/vcache no shift of a 64-bit word has a count of the form 64 - (x & 63) (which reaches 64 when x is a multiple of 64) unless a test of x & 63 against zero dominates it: masks for runs that end on a word boundary are full, not empty")
	n := 0
	for _, fn := range p.FuncsIn("vector", "runtime/vcache") {
		for _, b := range fn.Blocks {
			for _, in := range b.Instrs {
				sh, ok := in.(*ssa.BinOp)
				if !ok || (sh.Op != token.SHL && sh.Op != token.SHR) {
					continue
				}
				bt, ok := sh.X.Type().Underlying().(*types.Basic)
				if !ok || (bt.Kind() != types.Uint64 && bt.Kind() != types.Int64 && bt.Kind() != types.Uint) {
					continue
				}
				n++
				// count = 64 - (x & 63), possibly through conversions
				cnt := stripConv(sh.Y)
				sub, ok := cnt.(*ssa.BinOp)
				if !ok || sub.Op != token.SUB {
					continue
				}
				k, ok := stripConv(sub.X).(*ssa.Const)
				if !ok || k.Value == nil || k.Value.Kind() != constant.Int || k.Int64() != 64 {
					continue
				}
				and, ok := stripConv(sub.Y).(*ssa.BinOp)
				if !ok || and.Op != token.AND {
					continue
				}
				m1, ok1 := stripConv(and.X).(*ssa.Const)
				m2, ok2 := stripConv(and.Y).(*ssa.Const)
				if !(ok1 && m1.Int64() == 63) && !(ok2 && m2.Int64() == 63) {
					continue
				}
				// guarded by a dominating test of the masked value against zero?
				guarded := false
				for _, gb := range fn.Blocks {
					if len(gb.Instrs) == 0 || gb == b || !gb.Dominates(b) {
						continue
					}
					if iff, ok := gb.Instrs[len(gb.Instrs)-1].(*ssa.If); ok {
						if cmp, ok := iff.Cond.(*ssa.BinOp); ok && (cmp.Op == token.EQL || cmp.Op == token.NEQ) {
							if dependsOn(cmp, func(v ssa.Value) bool { return v == and }) {
								guarded = true
							}
						}
					}
				}
				if !guarded {
					c.Fail(rule, constructName(fn)+" shifts a word by 64 - (x & 63)", sh.Pos(), "the shift count is 64 when x is a multiple of 64, and a 64-bit shift by 64 is 0 in Go: the mask for the last word of a run ending on a word boundary is empty, so the nulls in that word are not set and a column whose null run ends at slot 63, 127, ... reads back non-null through the vector cache")
				}
			}
		}
	}
	if n == 0 {
		c.Undecided(rule, "bitmap shifts", "no 64-bit shift found in the bitmap packages")
		return
	}
	c.OK(rule, "bitmap shifts in vector and vcache", token.NoPos, sprint(n)+" shifts examined")
}

// ---- C20-O2: the fuse aggregate mixes types in the order they were first seen.
//
// Merging record types fixes the field order of the result, so the order in which types are
// mixed into the schema is part of fuse's contract (the fuse operator follows input order).  The
// aggregate remembers each shape's first-seen ordinal in a map; Result must lay the shapes out by
// that ordinal - not iterate the map directly, and not sort by anything else.
func runFuseAggMixesInSeenOrder(c *Ctx, rule string) {
	p := c.P
	c.Rule(rule, "agg.fuse.Result places each remembered shape at its recorded ordinal (a store into a slice indexed by the map's value) before mixing, and calls no sort: the type fuse() reports has its fields in first-seen order, like the fuse operator's output")
	fn := p.Func("(*runtime/sam/expr/agg.fuse).Result")
	if fn == nil {
		c.Undecided(rule, "(*runtime/sam/expr/agg.fuse).Result", "anchor does not resolve")
		return
	}
	construct := "(*runtime/sam/expr/agg.fuse).Result order of mixing"
	for _, ci := range allCalls(fn) {
		nm := calleeName(ci.Common())
		if strings.HasPrefix(nm, "sort.") || strings.HasPrefix(nm, "slices.Sort") {
			c.Fail(rule, construct, ci.Pos(), "the types are sorted before they are mixed into the schema: the field order of the fused type then follows type ids (the age of the types in the context) instead of the order of the input, so `fuse(this)` reports {b,x,k,a} where the fuse operator outputs {x,k,a,b}")
			return
		}
	}
	byOrdinal := false
	ranged := false
	for _, b := range fn.Blocks {
		for _, in := range b.Instrs {
			nx, ok := in.(*ssa.Next)
			if !ok {
				continue
			}
			ranged = true
			for _, r := range *nx.Referrers() {
				ex, ok := r.(*ssa.Extract)
				if !ok || ex.Index != 2 {
					continue
				}
				// the map value (ordinal) indexes a slice that is stored into
				for _, rr := range *ex.Referrers() {
					if ia, ok := rr.(*ssa.IndexAddr); ok && ia.Index == ex {
						for _, rrr := range *ia.Referrers() {
							if _, ok := rrr.(*ssa.Store); ok {
								byOrdinal = true
							}
						}
					}
				}
			}
		}
	}
	switch {
	case !ranged:
		c.Undecided(rule, construct, "the iteration over the remembered shapes was not found")
	case byOrdinal:
		c.OK(rule, construct, fn.Pos(), "shapes are laid out by their first-seen ordinal; no sort")
	default:
		c.Fail(rule, construct, fn.Pos(), "the remembered shapes are taken in map iteration order instead of being laid out by their first-seen ordinal: the field order of the type fuse() reports varies from run to run and differs from the fuse operator's")
	}
}

// ---- C11-U1: loops that follow union tags stop at a null.
//
// TypeUnion.Untag(nil) returns the union type itself (a null has no tag).  A loop of the form
// `for { t = TypeUnder(t); u, ok := t.(*TypeUnion); if !ok { return }; t, b = u.Untag(b) }`
// therefore never ends for a null value of union type: the JSON writer (and everything else
// that calls Value.Under) spins at 100% CPU and ignores cancellation.
func runUntagLoopsStopAtNull(c *Ctx, rule string) {
	p := c.P
	c.Rule(rule, "every call of TypeUnion.Untag whose result is fed back into it around a loop is on the non-nil edge of a test of the bytes it is given: a null value of union type ends the loop instead of being untagged into itself forever")
	n := 0
	for _, s := range callSitesWhere(p, func(_ *ssa.CallCommon, name string) bool { return name == "(*super.TypeUnion).Untag" }) {
		in := s.ci.(ssa.Instruction)
		if !inCycle(s.fn, in) {
			continue
		}
		args := s.ci.Common().Args
		bytesArg := args[len(args)-1]
		// only loops that feed Untag's result back into Untag (an element loop untags each
		// element once and moves on)
		self, _ := s.ci.(ssa.Value)
		if self == nil || !dependsOn(bytesArg, func(v ssa.Value) bool { return v == self }) {
			continue
		}
		n++
		ok := false
		for _, b := range s.fn.Blocks {
			for _, ii := range b.Instrs {
				cmp, isCmp := ii.(*ssa.BinOp)
				if !isCmp || !(isNilConst(cmp.X) || isNilConst(cmp.Y)) {
					continue
				}
				other := cmp.X
				if isNilConst(other) {
					other = cmp.Y
				}
				if other != bytesArg && !sameVar(other, bytesArg) {
					continue
				}
				switch cmp.Op {
				case token.EQL:
					// the call must not be reachable through the == nil edge alone
					for _, r := range *cmp.Referrers() {
						if iff, isIf := r.(*ssa.If); isIf && !reachesBlock(iff.Block().Succs[0], in.Block(), iff.Block()) {
							ok = true
						}
					}
					// `!ok || bytes == nil` short-circuits: the == nil test sits in its own block
					ok = ok || falseEdgeDominatesOrSelf(cmp, in.Block())
				case token.NEQ:
					ok = ok || trueEdgeDominatesOrSelf(cmp, in.Block())
				}
			}
		}
		construct := constructName(s.fn) + " untags in a loop"
		if ok {
			c.OK(rule, construct, s.ci.Pos(), "only for non-nil bytes")
		} else {
			c.Fail(rule, construct, s.ci.Pos(), "Untag(nil) returns the union type itself, and this loop goes round again: Value.Under on `null((int64,string))` never returns - `super query -f json` on {n:null((int64,string))} spins at 100% CPU and has to be killed")
		}
	}
	if n == 0 {
		c.OK(rule, "Untag in loops", token.NoPos, "no call of Untag lies on a cycle")
	}
}

// ---- C05-W2: type ids written to a ZNG stream are the ids of the types, names included.
//
// Type.ID() looks through type names (a named type reports the id of the type under the name);
// zed.TypeID(t) is the id of t itself.  A typedef must refer to its inner type by the latter, or
// `foo=bar=int64` is written as "foo names int64" and the reader loses the intermediate name.
func runEncoderWritesTypeIDs(c *Ctx, rule string) {
	p := c.P
	c.Rule(rule, "in the methods of zngio.Encoder no value produced by the ID() method of a zed.Type reaches binary.AppendUvarint: ids written into typedefs come from zed.TypeID, which does not look through type names")
	n := 0
	bad := 0
	for _, fn := range p.FuncsIn("zio/zngio") {
		if fn.Signature.Recv() == nil || namedOf(fn.Signature.Recv().Type()) != "zio/zngio.Encoder" {
			continue
		}
		for _, ci := range allCalls(fn) {
			if calleeName(ci.Common()) != "encoding/binary.AppendUvarint" {
				continue
			}
			n++
			arg := ci.Common().Args[len(ci.Common().Args)-1]
			if dependsOn(arg, func(v ssa.Value) bool {
				call, ok := v.(*ssa.Call)
				return ok && call.Common().IsInvoke() && call.Common().Method.Name() == "ID" && namedOf(call.Common().Value.Type()) == "super.Type"
			}) || dependsOn(arg, func(v ssa.Value) bool {
				call, ok := v.(*ssa.Call)
				return ok && strings.HasSuffix(calleeName(call.Common()), ").ID") && strings.HasPrefix(calleeName(call.Common()), "(*super.Type")
			}) {
				bad++
				c.Fail(rule, constructName(fn)+" writes an id obtained from Type.ID()", ci.Pos(), "the id written into the typedef comes from the ID() method, which looks through type names: `foo=bar=int64` is written as `foo` naming int64, and every reader gets `foo=int64` back - the type is not portable across contexts")
			}
		}
	}
	switch {
	case n < 5:
		c.Undecided(rule, "ids written by zngio.Encoder", "fewer than five uvarint writes found ("+sprint(n)+")")
	case bad == 0:
		c.OK(rule, "ids written by zngio.Encoder", token.NoPos, sprint(n)+" uvarint writes, none fed by Type.ID()")
	}
}

// ---- C07-F2: only a leading filter is pushed into the scan.
//
// optimizer.matchFilter hands the scanner the predicate of the first operator of a source's
// chain.  A filter found behind any other operator is not equivalent in front of it in general
// (`uniq | where x==1` over 1,2,1 yields two values; filtering first yields one).
func runOnlyLeadingFilterPushed(c *Ctx, rule string) {
	p := c.P
	c.Rule(rule, "optimizer.matchFilter tests for a dag.Filter only the element at index 0 of the operator chain it is given: no operator is skipped on the way to the filter that is lifted into the scan")
	fn := p.Func("compiler/optimizer.matchFilter")
	if fn == nil {
		c.Undecided(rule, "compiler/optimizer.matchFilter", "anchor does not resolve")
		return
	}
	n := 0
	for _, b := range fn.Blocks {
		for _, in := range b.Instrs {
			ta, ok := in.(*ssa.TypeAssert)
			if !ok || namedOf(ta.AssertedType) != "compiler/ast/dag.Filter" {
				continue
			}
			n++
			first := false
			if u, ok := ta.X.(*ssa.UnOp); ok && u.Op == token.MUL {
				if ia, ok := u.X.(*ssa.IndexAddr); ok && ia.X == fn.Params[0] {
					if k, ok := ia.Index.(*ssa.Const); ok && k.Int64() == 0 {
						first = true
					}
				}
			}
			construct := "compiler/optimizer.matchFilter position of the lifted filter"
			if first {
				c.OK(rule, construct, ta.Pos(), "element 0 of the chain")
			} else {
				c.Fail(rule, construct, ta.Pos(), "the filter that is lifted into the scan is looked for behind other operators: `uniq | where x==1` over {x:1}{x:2}{x:1} gives two values as analysed and one when the filter runs in the scanner, before uniq")
			}
		}
	}
	if n == 0 {
		c.Undecided(rule, "compiler/optimizer.matchFilter", "no test for a dag.Filter found")
	}
}

// ---- C19-Q1: the client labels batches with the channel the service last selected.
//
// The service sends QueryChannelSet only when the channel changes from the last batch it wrote;
// a QueryChannelEnd does not reset that.  The client's current channel may therefore change only
// on a QueryChannelSet: forgetting it at a channel end mislabels every later batch of the channel
// that was current on the server ("" instead of "main"), and consumers that route by label drop
// them without an error.
func runClientChannelFollowsSet(c *Ctx, rule string) {
	p := c.P
	c.Rule(rule, "in queryio.scanner.Pull every store to the scanner's channel takes its value from the Channel field of a QueryChannelSet message: the client's notion of the current channel changes exactly when the service's does")
	fn := p.Func("(*api/queryio.scanner).Pull")
	if fn == nil {
		c.Undecided(rule, "(*api/queryio.scanner).Pull", "anchor does not resolve")
		return
	}
	n, bad := 0, 0
	for _, b := range fn.Blocks {
		for _, in := range b.Instrs {
			st, ok := in.(*ssa.Store)
			if !ok {
				continue
			}
			fa, ok := st.Addr.(*ssa.FieldAddr)
			if !ok || fa.X != fn.Params[0] || fieldName(fa.X.Type(), fa.Field) != "channel" {
				continue
			}
			n++
			fromSet := dependsOn(st.Val, func(v ssa.Value) bool {
				f, ok := v.(*ssa.FieldAddr)
				return ok && namedOf(f.X.Type()) == "api.QueryChannelSet" && fieldName(f.X.Type(), f.Field) == "Channel"
			})
			if !fromSet {
				bad++
				c.Fail(rule, "(*api/queryio.scanner).Pull changes the current channel", st.Pos(), "the client's current channel is changed by something other than a QueryChannelSet: after output `side` ends while `main` is the channel selected on the server, the remaining batches of `main` arrive labelled \"\" and `super db query` drops them silently - a multi-output query returns fewer rows through the service than directly")
			}
		}
	}
	switch {
	case n == 0:
		c.Undecided(rule, "(*api/queryio.scanner).Pull", "no store to the scanner's channel found")
	case bad == 0:
		c.OK(rule, "(*api/queryio.scanner).Pull changes the current channel", fn.Pos(), sprint(n)+" stores, all from QueryChannelSet.Channel")
	}
}

// ---- C07-M2: several sorted parents make a sorted input only for a merge.
//
// propagateSortKeyOp condenses the sort keys of an operator's parents into one.  Parents that
// are each sorted arrive interleaved unless the operator is a merge, so for more than one parent
// the common key may be used by a dag.Merge only; otherwise `fork (=> pass => pass) | count() by ts`
// over sorted input is split into partials whose final summarize streams on input that is not
// sorted, and returns groups twice.
func runMultiParentSortKeyOnlyForMerge(c *Ctx, rule string) {
	p := c.P
	c.Rule(rule, "in optimizer.propagateSortKeyOp a test of len(parents) > 1 leads, on its true edge, to a test for *dag.Merge before the per-operator dispatch: the common sort key of several parents is kept for a merge and dropped for every other operator")
	fn := p.Func("(*compiler/optimizer.Optimizer).propagateSortKeyOp")
	if fn == nil || len(fn.Params) < 3 {
		c.Undecided(rule, "(*compiler/optimizer.Optimizer).propagateSortKeyOp", "anchor does not resolve")
		return
	}
	parents := fn.Params[2]
	ok := false
	for _, b := range fn.Blocks {
		for _, in := range b.Instrs {
			cmp, isCmp := in.(*ssa.BinOp)
			if !isCmp || (cmp.Op != token.GTR && cmp.Op != token.GEQ) {
				continue
			}
			call, isCall := cmp.X.(*ssa.Call)
			if !isCall {
				continue
			}
			bi, isBi := call.Call.Value.(*ssa.Builtin)
			if !isBi || bi.Name() != "len" || call.Call.Args[0] != parents {
				continue
			}
			for _, bb := range fn.Blocks {
				if !trueEdgeDominatesOrSelf(cmp, bb) {
					continue
				}
				for _, ii := range bb.Instrs {
					if ta, isTA := ii.(*ssa.TypeAssert); isTA && namedOf(ta.AssertedType) == "compiler/ast/dag.Merge" && ta.X == fn.Params[1] {
						ok = true
					}
				}
			}
		}
	}
	construct := "(*compiler/optimizer.Optimizer).propagateSortKeyOp common key of several parents"
	if ok {
		c.OK(rule, construct, fn.Pos(), "kept for a merge only")
	} else {
		c.Fail(rule, construct, fn.Pos(), "the common sort key of several parents is handed to any operator: `fork (=> pass => pass) | count() by ts` over 5000 records declared sorted on ts returns 1386 groups optimized and 715 as analysed - the final summarize streams (sort-dir) on the interleaved output of the legs")
	}
}
