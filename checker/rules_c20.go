package main

import (
	"go/constant"
	"go/types"

	"golang.org/x/tools/go/ssa"
)

func runC20(c *Ctx, tier string) {
	p := c.P
	runShaperStepKindsCovered(c, "C20-K1")
	c.Rule("C20-M1", "every new input type is mixed into the fused schema before the value is buffered: in Fuser.Write no path reaches stash/spill with a type missing from f.types unless Mixin(rec.Type()) ran")
	c.Rule("C20-W2", "buffered values are copies (= C04-W2 for Fuser.Write)")
	c.Rule("C20-O1", "spilling keeps input order: stash writes the already buffered values (in slice order) to the spill file before the current one, and nothing is buffered in memory once a spill file exists")
	c.Rule("C20-R1", "the second pass shapes every value to the fused type with Cast|Fill|Order, the type being uberSchema.Type()")
	runMergeSetOnlyFromSets(c, "C20-M2")
	runMergeIdempotent(c, "C20-M3")
	runShaperCacheKey(c, "C20-R2")
	runFuseConsumesEveryType(c, "C20-A1")
	wr := p.Func("(*runtime/sam/op/fuse.Fuser).Write")
	st := p.Func("(*runtime/sam/op/fuse.Fuser).stash")
	rd := p.Func("(*runtime/sam/op/fuse.Fuser).Read")
	if wr == nil || st == nil || rd == nil {
		c.Undecided("C20-M1", "fuse.Fuser", "anchors Write/stash/Read do not resolve")
		return
	}
	// M1
	var lk *ssa.Lookup
	for _, b := range wr.Blocks {
		for _, in := range b.Instrs {
			if l, ok := in.(*ssa.Lookup); ok && l.CommaOk && isFieldLoad(l.X, "types") {
				lk = l
			}
		}
	}
	mixins := callsTo(wr, "(*runtime/sam/expr/agg.Schema).Mixin")
	isSink := func(in ssa.Instruction) bool {
		ci, ok := in.(ssa.CallInstruction)
		if !ok {
			return false
		}
		n := calleeName(ci.Common())
		return n == "(*runtime/sam/op/fuse.Fuser).stash" || isSpillWrite(ci.Common())
	}
	switch {
	case lk == nil:
		c.Fail("C20-M1", "(*runtime/sam/op/fuse.Fuser).Write", wr.Pos(), "Write does not consult f.types for the value's type")
	case len(mixins) == 0:
		c.Fail("C20-M1", "(*runtime/sam/op/fuse.Fuser).Write", wr.Pos(), "Write never mixes the value's type into the fused schema")
	default:
		var okv ssa.Value
		for _, r := range *lk.Referrers() {
			if ex, isEx := r.(*ssa.Extract); isEx && ex.Index == 1 {
				okv = ex
			}
		}
		isMixin := func(in ssa.Instruction) bool { return in == mixins[0].(ssa.Instruction) }
		// prune the edge on which the type is already known
		edgeOK := func(a, b *ssa.BasicBlock) bool {
			if iff, isIf := a.Instrs[len(a.Instrs)-1].(*ssa.If); isIf && okv != nil && iff.Cond == okv && b == a.Succs[0] {
				return false
			}
			return true
		}
		// a sink must not be reachable from entry without the lookup
		noLookup := reachAvoiding(wr, nil, func(x ssa.Instruction) bool { return x == ssa.Instruction(lk) }, isSink)
		miss := reachAvoidingEdges(wr, lk, isMixin, isSink, edgeOK)
		// Mixin's argument is the value's type
		argOK := false
		if mc, isCall := mixins[0].(*ssa.Call); isCall {
			argOK = dependsOn(mc.Call.Args[1], func(v ssa.Value) bool {
				call, ok := v.(*ssa.Call)
				return ok && calleeName(call.Common()) == "(super.Value).Type"
			})
		}
		switch {
		case noLookup != nil:
			c.Fail("C20-M1", "(*runtime/sam/op/fuse.Fuser).Write", noLookup.Pos(), "a value can be buffered on a path that never looked its type up in f.types")
		case miss != nil:
			c.Fail("C20-M1", "(*runtime/sam/op/fuse.Fuser).Write", miss.Pos(), "a value whose type is not yet in f.types can be buffered without Mixin: the fused type then lacks that type's fields and the second pass drops them (output is no longer lossless / uniform)")
		case !argOK:
			c.Fail("C20-M1", "(*runtime/sam/op/fuse.Fuser).Write", mixins[0].Pos(), "Mixin is not applied to the written value's type")
		default:
			c.OK("C20-M1", "(*runtime/sam/op/fuse.Fuser).Write", lk.Pos(), "types miss => Mixin(rec.Type()) before the value is buffered")
		}
	}
	// W2
	c.borrow(func(t *Ctx) { checkNoRetain(t, "C04-W2", wr, 1, "zio.Writer contract") }, map[string]string{"C04-W2": "C20-W2"})
	// O1
	var loopWrite, curWrite ssa.Instruction
	for _, ci := range allCalls(st) {
		if !isSpillWrite(ci.Common()) {
			continue
		}
		arg := ci.Common().Args[1]
		if stripConv(arg) == ssa.Value(st.Params[1]) {
			curWrite = ci.(ssa.Instruction)
		} else if dependsOn(arg, func(v ssa.Value) bool { return isFieldLoad(v, "vals") }) {
			loopWrite = ci.(ssa.Instruction)
		}
	}
	none := func(ssa.Instruction) bool { return false }
	switch {
	case loopWrite == nil || curWrite == nil:
		c.Fail("C20-O1", "(*runtime/sam/op/fuse.Fuser).stash", st.Pos(), "stash no longer writes both the buffered values and the current value to the spill file")
	case reachAvoiding(st, curWrite, none, func(x ssa.Instruction) bool { return x == loopWrite }) != nil:
		c.Fail("C20-O1", "(*runtime/sam/op/fuse.Fuser).stash", curWrite.Pos(), "the current value is spilled before the values buffered ahead of it: output order differs from input order once the input no longer fits in memory")
	case reachAvoiding(st, loopWrite, none, func(x ssa.Instruction) bool { return x == curWrite }) == nil:
		c.Fail("C20-O1", "(*runtime/sam/op/fuse.Fuser).stash", loopWrite.Pos(), "after spilling the buffered values the current value is not written")
	default:
		// the buffered values are written by a range loop over f.vals (ascending index)
		asc := dependsOn(loopWrite.(*ssa.Call).Call.Args[1], func(v ssa.Value) bool {
			ia, ok := v.(*ssa.IndexAddr)
			if !ok {
				return false
			}
			// index is a phi incremented by +1
			return dependsOn(ia.Index, func(w ssa.Value) bool {
				b, ok := w.(*ssa.BinOp)
				if !ok || b.Op.String() != "+" {
					return false
				}
				k, ok := b.Y.(*ssa.Const)
				return ok && k.Value != nil && k.Int64() == 1
			})
		})
		if asc {
			c.OK("C20-O1", "(*runtime/sam/op/fuse.Fuser).stash", loopWrite.Pos(), "buffered values spilled in slice order, then the current value")
		} else {
			c.Fail("C20-O1", "(*runtime/sam/op/fuse.Fuser).stash", loopWrite.Pos(), "the buffered values are not written in ascending slice order")
		}
	}
	// stash only while no spill file exists
	okStash := false
	for _, ci := range callsTo(wr, "(*runtime/sam/op/fuse.Fuser).stash") {
		for _, b := range wr.Blocks {
			for _, in := range b.Instrs {
				cmp, ok := in.(*ssa.BinOp)
				if !ok || cmp.Op.String() != "!=" || !isNilConst(cmp.Y) || !isFieldLoad(cmp.X, "spiller") {
					continue
				}
				if falseEdgeDominatesOrSelf(cmp, ci.(ssa.Instruction).Block()) {
					okStash = true
				}
			}
		}
	}
	if okStash {
		c.OK("C20-O1", "(*runtime/sam/op/fuse.Fuser).Write routes to the spill file", wr.Pos(), "values are buffered in memory only while no spill file exists")
	} else {
		c.Fail("C20-O1", "(*runtime/sam/op/fuse.Fuser).Write routes to the spill file", wr.Pos(), "a value can be buffered in memory after spilling started: it would be emitted out of order or lost (Read drains only the spill file)")
	}
	// R1
	var ns *ssa.Call
	for _, ci := range callsTo(rd, "runtime/sam/expr.NewConstShaper") {
		ns, _ = ci.(*ssa.Call)
	}
	if ns == nil {
		c.Fail("C20-R1", "(*runtime/sam/op/fuse.Fuser).Read", rd.Pos(), "Read no longer shapes values with a ConstShaper")
	} else {
		want := int64(0)
		for _, n := range []string{"Cast", "Fill", "Order"} {
			if cst, ok := p.Pkgs["runtime/sam/expr"].Types.Scope().Lookup(n).(*types.Const); ok {
				v, _ := constant.Int64Val(constant.ToInt(cst.Val()))
				want |= v
			}
		}
		k, isK := ns.Call.Args[3].(*ssa.Const)
		typeOK := dependsOn(ns.Call.Args[2], func(v ssa.Value) bool {
			call, ok := v.(*ssa.Call)
			return ok && calleeName(call.Common()) == "(*runtime/sam/expr/agg.Schema).Type"
		})
		switch {
		case !isK || k.Value == nil || k.Int64()&want != want:
			c.Fail("C20-R1", "(*runtime/sam/op/fuse.Fuser).Read shaper flags", ns.Pos(), "the shaper is not built with Cast|Fill|Order: without Fill missing fields are not null-filled (output not uniform), without Cast values are not lifted into union members, without Order field order differs between values")
		case !typeOK:
			c.Fail("C20-R1", "(*runtime/sam/op/fuse.Fuser).Read shaper type", ns.Pos(), "the shaper's target type is not uberSchema.Type()")
		default:
			c.OK("C20-R1", "(*runtime/sam/op/fuse.Fuser).Read", ns.Pos(), "ConstShaper(uberSchema.Type(), Cast|Fill|Order)")
		}
	}
	runFuseSpillSameContext(c, "C20-X1")
	runFuseRestartsPerStream(c, "C20-L1")
	runFuseAggMixesInSeenOrder(c, "C20-O2")
}

func init() {
	register(&PropertyDef{ID: "C20", Run: runC20,
		Explanation: "Decides structural conditions of fuse: every new type is mixed in before its value is buffered (M1), buffered values are copies (W2), spilling preserves order and nothing is buffered in memory afterwards (O1), the second pass shapes to the fused type with Cast|Fill|Order (R1). Does NOT decide the type algebra of agg.merge, the shaper's casts, or equality with the fuse() aggregate — i.e. losslessness as such.",
		Assumptions: []string{"a range loop over a slice visits it in ascending index order"}})
}

// isSpillWrite: a Write on the fuser's spill file (spill.File embeds the zngio writer).
func isSpillWrite(cc *ssa.CallCommon) bool {
	if calleeBare(cc) != "Write" || cc.IsInvoke() || len(cc.Args) < 2 {
		return false
	}
	return dependsOn(cc.Args[0], func(v ssa.Value) bool { return isFieldLoad(v, "spiller") })
}
