package main

import (
	"go/ast"
	"go/types"
	"sort"
	"strings"

	"golang.org/x/tools/go/ssa"
)

// ---- C07-D7: demand inference reads every input-reading field of the operators it narrows.
//
// inferDemandSeqOutWith / inferDemandExprIn narrow the set of fields a scan has to produce.  A
// case of their type switches that is not the conservative default must account for everything
// the operator (expression) reads from its input: every field of the node whose type can hold a
// dag.Expr must be selected in the case body.  A pass-through operator (its output values are its
// input values) must in addition hand the downstream demand upstream.

// fields that hold a dag.Expr but do not read the operator's input.
var c07DemandLvalues = map[string]string{
	"compiler/ast/dag.Assignment.LHS": "names the output field; evaluated against the output, not the input",
}

// operators whose output values are (a subset of) their input values.
var c07PassThrough = map[string]bool{"compiler/ast/dag.Filter": true}

func runDemandCoverage(c *Ctx, rule string) {
	p := c.P
	c.Rule(rule, "demand inference is conservative per operator: every non-default case of the optimizer's demand type switches selects every field of its node that can hold an expression (so every input field the node reads is demanded), and the case of a pass-through operator includes the downstream demand")
	exprI := ifaceType(p, "compiler/ast/dag", "Expr")
	if exprI == nil {
		c.Undecided(rule, "dag.Expr", "type does not resolve")
		return
	}
	var holds func(t types.Type, seen map[types.Type]bool) bool
	holds = func(t types.Type, seen map[types.Type]bool) bool {
		if seen[t] {
			return false
		}
		seen[t] = true
		if n, ok := t.(*types.Named); ok {
			if i, ok := n.Underlying().(*types.Interface); ok {
				nm := namedOf(n)
				return types.Identical(i, exprI) || nm == "compiler/ast/dag.Op" || nm == "compiler/ast/dag.RecordElem" || nm == "compiler/ast/dag.VectorElem"
			}
		}
		switch u := t.Underlying().(type) {
		case *types.Pointer:
			return holds(u.Elem(), seen)
		case *types.Slice:
			return holds(u.Elem(), seen)
		case *types.Struct:
			for i := 0; i < u.NumFields(); i++ {
				if holds(u.Field(i).Type(), seen) {
					return true
				}
			}
		}
		return false
	}
	// required (struct, field) pairs for node type t
	var required func(t types.Type, out map[string]bool, seen map[types.Type]bool)
	required = func(t types.Type, out map[string]bool, seen map[types.Type]bool) {
		for {
			if pt, ok := t.Underlying().(*types.Pointer); ok {
				t = pt.Elem()
				continue
			}
			if sl, ok := t.Underlying().(*types.Slice); ok {
				t = sl.Elem()
				continue
			}
			break
		}
		if seen[t] {
			return
		}
		seen[t] = true
		if i, ok := t.Underlying().(*types.Interface); ok {
			// element interfaces (record/vector elements): every implementer counts
			if nm := namedOf(t); nm == "compiler/ast/dag.RecordElem" || nm == "compiler/ast/dag.VectorElem" {
				for _, impl := range implementersOf(p, i, "compiler/ast/dag") {
					if it := p.Type("compiler/ast/dag", impl[strings.LastIndex(impl, ".")+1:]); it != nil {
						required(it, out, seen)
					}
				}
			}
			return
		}
		st, ok := t.Underlying().(*types.Struct)
		if !ok {
			return
		}
		name := namedOf(t)
		for i := 0; i < st.NumFields(); i++ {
			f := st.Field(i)
			if !holds(f.Type(), map[types.Type]bool{}) {
				continue
			}
			key := name + "." + f.Name()
			if _, lv := c07DemandLvalues[key]; lv {
				continue
			}
			out[key] = true
			required(f.Type(), out, seen)
		}
	}
	n := 0
	for _, fname := range []string{"compiler/optimizer.inferDemandSeqOutWith", "compiler/optimizer.inferDemandExprIn"} {
		fn := p.Func(fname)
		if fn == nil {
			c.Undecided(rule, fname, "anchor does not resolve")
			continue
		}
		decl := p.Decl(fn)
		info := p.pkgOfFunc(fn).TypesInfo
		var outer *ast.TypeSwitchStmt
		ast.Inspect(decl.Body, func(nd ast.Node) bool {
			if ts, ok := nd.(*ast.TypeSwitchStmt); ok && outer == nil {
				outer = ts
				return false
			}
			return true
		})
		if outer == nil {
			c.Undecided(rule, fname, "no type switch found")
			continue
		}
		for _, s := range outer.Body.List {
			cc := s.(*ast.CaseClause)
			if cc.List == nil {
				continue
			}
			for _, l := range cc.List {
				t := info.TypeOf(l)
				if t == nil {
					continue
				}
				node := namedOf(t)
				req := map[string]bool{}
				required(t, req, map[types.Type]bool{})
				got := map[string]bool{}
				mentionsOut := false
				for _, st := range cc.Body {
					ast.Inspect(st, func(nd ast.Node) bool {
						switch x := nd.(type) {
						case *ast.SelectorExpr:
							if sel, ok := info.Selections[x]; ok && sel.Kind() == types.FieldVal {
								got[namedOf(sel.Recv())+"."+x.Sel.Name] = true
							}
						case *ast.Ident:
							if x.Name == "demandOpOut" {
								mentionsOut = true
							}
						}
						return true
					})
				}
				var missing []string
				for k := range req {
					if !got[k] {
						missing = append(missing, k)
					}
				}
				sort.Strings(missing)
				n++
				construct := fn.Name() + " case " + node
				switch {
				case len(missing) > 0:
					c.Fail(rule, construct, cc.Pos(), "the case narrows the demand but never reads "+strings.Join(missing, ", ")+": input fields used only there are not demanded from the scan, so the optimized program sees them as missing")
				case c07PassThrough[node] && !mentionsOut:
					c.Fail(rule, construct, cc.Pos(), "a pass-through operator must hand the downstream demand (demandOpOut) upstream; without it fields needed after this operator are dropped at the scan")
				default:
					c.OK(rule, construct, cc.Pos(), "reads "+sprint(len(req))+" expression-bearing fields")
				}
			}
		}
	}
	if n < 9 {
		c.Undecided(rule, "demand inference", "fewer than 9 narrowing cases found ("+sprint(n)+")")
	}
}

// ---- C07-D8: a predicate taken off the operator chain is handed to the scan.
func runFilterPushdownKept(c *Ctx, rule string) {
	p := c.P
	c.Rule(rule, "filter pushdown moves, never drops: in optimizeSourcePaths every use of the chain that matchFilter shortened (the leading filter removed) is dominated by a store of the removed predicate into the Filter field of the scan that heads the rebuilt sequence")
	var fn *ssa.Function
	for _, f := range p.FuncsIn("compiler/optimizer") {
		if f.Parent() != nil && fnName(f.Parent()) == "(*compiler/optimizer.Optimizer).optimizeSourcePaths" {
			fn = f
		}
	}
	if fn == nil {
		c.Undecided(rule, "optimizeSourcePaths", "closure does not resolve")
		return
	}
	var filter, chain ssa.Value
	for _, b := range fn.Blocks {
		for _, in := range b.Instrs {
			call, ok := in.(*ssa.Call)
			if !ok || calleeName(&call.Call) != "compiler/optimizer.matchFilter" {
				continue
			}
			for _, r := range *call.Referrers() {
				if ex, ok := r.(*ssa.Extract); ok {
					if ex.Index == 0 {
						filter = ex
					} else {
						chain = ex
					}
				}
			}
		}
	}
	if filter == nil || chain == nil {
		c.Undecided(rule, "optimizeSourcePaths", "matchFilter call with both results used not found")
		return
	}
	var stores []ssa.Instruction
	for _, b := range fn.Blocks {
		for _, in := range b.Instrs {
			st, ok := in.(*ssa.Store)
			if !ok || stripConv(st.Val) != filter {
				continue
			}
			if fa, ok := st.Addr.(*ssa.FieldAddr); ok && fieldName(fa.X.Type(), fa.Field) == "Filter" {
				stores = append(stores, st)
			}
		}
	}
	n := 0
	var uses []ssa.Instruction
	var follow func(v ssa.Value, seen map[ssa.Value]bool)
	follow = func(v ssa.Value, seen map[ssa.Value]bool) {
		if seen[v] {
			return
		}
		seen[v] = true
		for _, r := range *v.Referrers() {
			switch x := r.(type) {
			case *ssa.ChangeType:
				follow(x, seen)
			case *ssa.Convert:
				follow(x, seen)
			case *ssa.Call:
				if b, ok := x.Call.Value.(*ssa.Builtin); ok && b.Name() == "append" {
					uses = append(uses, x)
				}
			}
		}
	}
	follow(chain, map[ssa.Value]bool{})
	for _, in := range uses {
		n++
		ok2 := false
		for _, st := range stores {
			if dominates(st, in) {
				ok2 = true
			}
		}
		construct := "optimizeSourcePaths use of the shortened chain #" + sprint(n)
		if ok2 {
			c.OK(rule, construct, in.Pos(), "the removed predicate was stored into the scan's Filter first")
		} else {
			c.Fail(rule, construct, in.Pos(), "the sequence is rebuilt from the chain without its leading filter, but the predicate is not stored into the scan's Filter on this path: the filter silently disappears from the program")
		}
	}
	if n < 3 {
		c.Undecided(rule, "optimizeSourcePaths", "fewer than 3 rebuild sites found ("+sprint(n)+")")
	}
}
