package main

import (
	"go/ast"
	"go/token"
	"go/types"
	"sort"
	"strings"

	"golang.org/x/tools/go/ssa"
)

// ---- C07-D7: demand inference reads every input-reading field of the operators it narrows.
//
// inferDemandSeqOutWith / inferDemandExprIn narrow the set of fields a scan has to produce.  A
// case of their type switches that is not the conservative default must account for everything
// the operator (expression) reads from its input: every field of the node whose type can hold a
// dag.Expr must be selected in the case body.  A pass-through operator (its output values are its
// input values) must in addition hand the downstream demand upstream.

// fields that hold a dag.Expr but do not read the operator's input.
var c07DemandLvalues = map[string]string{
	"compiler/ast/dag.Assignment.LHS": "names the output field; evaluated against the output, not the input",
}

// operators whose output values are (a subset of) their input values.
var c07PassThrough = map[string]bool{"compiler/ast/dag.Filter": true}

func runDemandCoverage(c *Ctx, rule string) {
	p := c.P
	c.Rule(rule, "demand inference is conservative per operator: every non-default case of the optimizer's demand type switches selects every field of its node that can hold an expression (so every input field the node reads is demanded), and the case of a pass-through operator includes the downstream demand")
	exprI := ifaceType(p, "compiler/ast/dag", "Expr")
	if exprI == nil {
		c.Undecided(rule, "dag.Expr", "type does not resolve")
		return
	}
	var holds func(t types.Type, seen map[types.Type]bool) bool
	holds = func(t types.Type, seen map[types.Type]bool) bool {
		if seen[t] {
			return false
		}
		seen[t] = true
		if n, ok := t.(*types.Named); ok {
			if i, ok := n.Underlying().(*types.Interface); ok {
				nm := namedOf(n)
				return types.Identical(i, exprI) || nm == "compiler/ast/dag.Op" || nm == "compiler/ast/dag.RecordElem" || nm == "compiler/ast/dag.VectorElem"
			}
		}
		switch u := t.Underlying().(type) {
		case *types.Pointer:
			return holds(u.Elem(), seen)
		case *types.Slice:
			return holds(u.Elem(), seen)
		case *types.Struct:
			for i := 0; i < u.NumFields(); i++ {
				if holds(u.Field(i).Type(), seen) {
					return true
				}
			}
		}
		return false
	}
	// required (struct, field) pairs for node type t
	var required func(t types.Type, out map[string]bool, seen map[types.Type]bool)
	required = func(t types.Type, out map[string]bool, seen map[types.Type]bool) {
		for {
			if pt, ok := t.Underlying().(*types.Pointer); ok {
				t = pt.Elem()
				continue
			}
			if sl, ok := t.Underlying().(*types.Slice); ok {
				t = sl.Elem()
				continue
			}
			break
		}
		if seen[t] {
			return
		}
		seen[t] = true
		if i, ok := t.Underlying().(*types.Interface); ok {
			// element interfaces (record/vector elements): every implementer counts
			if nm := namedOf(t); nm == "compiler/ast/dag.RecordElem" || nm == "compiler/ast/dag.VectorElem" {
				for _, impl := range implementersOf(p, i, "compiler/ast/dag") {
					if it := p.Type("compiler/ast/dag", impl[strings.LastIndex(impl, ".")+1:]); it != nil {
						required(it, out, seen)
					}
				}
			}
			return
		}
		st, ok := t.Underlying().(*types.Struct)
		if !ok {
			return
		}
		name := namedOf(t)
		for i := 0; i < st.NumFields(); i++ {
			f := st.Field(i)
			if !holds(f.Type(), map[types.Type]bool{}) {
				continue
			}
			key := name + "." + f.Name()
			if _, lv := c07DemandLvalues[key]; lv {
				continue
			}
			out[key] = true
			required(f.Type(), out, seen)
		}
	}
	n := 0
	for _, fname := range []string{"compiler/optimizer.inferDemandSeqOutWith", "compiler/optimizer.inferDemandExprIn"} {
		fn := p.Func(fname)
		if fn == nil {
			c.Undecided(rule, fname, "anchor does not resolve")
			continue
		}
		decl := p.Decl(fn)
		info := p.pkgOfFunc(fn).TypesInfo
		var outer *ast.TypeSwitchStmt
		ast.Inspect(decl.Body, func(nd ast.Node) bool {
			if ts, ok := nd.(*ast.TypeSwitchStmt); ok && outer == nil {
				outer = ts
				return false
			}
			return true
		})
		if outer == nil {
			c.Undecided(rule, fname, "no type switch found")
			continue
		}
		for _, s := range outer.Body.List {
			cc := s.(*ast.CaseClause)
			if cc.List == nil {
				continue
			}
			for _, l := range cc.List {
				t := info.TypeOf(l)
				if t == nil {
					continue
				}
				node := namedOf(t)
				req := map[string]bool{}
				required(t, req, map[types.Type]bool{})
				got := map[string]bool{}
				mentionsOut := false
				for _, st := range cc.Body {
					ast.Inspect(st, func(nd ast.Node) bool {
						switch x := nd.(type) {
						case *ast.SelectorExpr:
							if sel, ok := info.Selections[x]; ok && sel.Kind() == types.FieldVal {
								got[namedOf(sel.Recv())+"."+x.Sel.Name] = true
							}
						case *ast.Ident:
							if x.Name == "demandOpOut" {
								mentionsOut = true
							}
						}
						return true
					})
				}
				var missing []string
				for k := range req {
					if !got[k] {
						missing = append(missing, k)
					}
				}
				sort.Strings(missing)
				n++
				construct := fn.Name() + " case " + node
				switch {
				case len(missing) > 0:
					c.Fail(rule, construct, cc.Pos(), "the case narrows the demand but never reads "+strings.Join(missing, ", ")+": input fields used only there are not demanded from the scan, so the optimized program sees them as missing")
				case c07PassThrough[node] && !mentionsOut:
					c.Fail(rule, construct, cc.Pos(), "a pass-through operator must hand the downstream demand (demandOpOut) upstream; without it fields needed after this operator are dropped at the scan")
				default:
					c.OK(rule, construct, cc.Pos(), "reads "+sprint(len(req))+" expression-bearing fields")
				}
			}
		}
	}
	if n < 9 {
		c.Undecided(rule, "demand inference", "fewer than 9 narrowing cases found ("+sprint(n)+")")
	}
}

// ---- C07-D8: a predicate taken off the operator chain is handed to the scan.
func runFilterPushdownKept(c *Ctx, rule string) {
	p := c.P
	c.Rule(rule, "filter pushdown moves, never drops: in optimizeSourcePaths every use of the chain that matchFilter shortened (the leading filter removed) is dominated by a store of the removed predicate into the Filter field of the scan that heads the rebuilt sequence")
	var fn *ssa.Function
	for _, f := range p.FuncsIn("compiler/optimizer") {
		if f.Parent() != nil && fnName(f.Parent()) == "(*compiler/optimizer.Optimizer).optimizeSourcePaths" {
			fn = f
		}
	}
	if fn == nil {
		c.Undecided(rule, "optimizeSourcePaths", "closure does not resolve")
		return
	}
	var filter, chain ssa.Value
	for _, b := range fn.Blocks {
		for _, in := range b.Instrs {
			call, ok := in.(*ssa.Call)
			if !ok || calleeName(&call.Call) != "compiler/optimizer.matchFilter" {
				continue
			}
			for _, r := range *call.Referrers() {
				if ex, ok := r.(*ssa.Extract); ok {
					if ex.Index == 0 {
						filter = ex
					} else {
						chain = ex
					}
				}
			}
		}
	}
	if filter == nil || chain == nil {
		c.Undecided(rule, "optimizeSourcePaths", "matchFilter call with both results used not found")
		return
	}
	var stores []ssa.Instruction
	for _, b := range fn.Blocks {
		for _, in := range b.Instrs {
			st, ok := in.(*ssa.Store)
			if !ok || stripConv(st.Val) != filter {
				continue
			}
			if fa, ok := st.Addr.(*ssa.FieldAddr); ok && fieldName(fa.X.Type(), fa.Field) == "Filter" {
				stores = append(stores, st)
			}
		}
	}
	n := 0
	var uses []ssa.Instruction
	var follow func(v ssa.Value, seen map[ssa.Value]bool)
	follow = func(v ssa.Value, seen map[ssa.Value]bool) {
		if seen[v] {
			return
		}
		seen[v] = true
		for _, r := range *v.Referrers() {
			switch x := r.(type) {
			case *ssa.ChangeType:
				follow(x, seen)
			case *ssa.Convert:
				follow(x, seen)
			case *ssa.Call:
				if b, ok := x.Call.Value.(*ssa.Builtin); ok && b.Name() == "append" {
					uses = append(uses, x)
				}
			}
		}
	}
	follow(chain, map[ssa.Value]bool{})
	for _, in := range uses {
		n++
		ok2 := false
		for _, st := range stores {
			if dominates(st, in) {
				ok2 = true
			}
		}
		construct := "optimizeSourcePaths use of the shortened chain #" + sprint(n)
		if ok2 {
			c.OK(rule, construct, in.Pos(), "the removed predicate was stored into the scan's Filter first")
		} else {
			c.Fail(rule, construct, in.Pos(), "the sequence is rebuilt from the chain without its leading filter, but the predicate is not stored into the scan's Filter on this path: the filter silently disappears from the program")
		}
	}
	if n < 3 {
		c.Undecided(rule, "optimizeSourcePaths", "fewer than 3 rebuild sites found ("+sprint(n)+")")
	}
}

// ---- C07-D9 / C08-N2: whoever uses a sort's direction uses all of it.
//
// A dag.Sort's effective order is Args[i].Order flipped by Reverse, and its null placement is
// NullsFirst relative to that order.  A function of the optimizer that reads the Order of a
// sort's argument without reading Reverse, or that turns a sort into a dag.Merge without
// consulting NullsFirst, builds a plan that orders differently from the sort it replaces.
func runSortFieldPairing(c *Ctx, ruleRev, ruleNulls string) {
	p := c.P
	c.Rule(ruleRev, "sort direction is read whole: every function of compiler/optimizer that reads Args[i].Order of a dag.Sort also reads that sort's Reverse flag (itself or through a callee it hands the sort to)")
	c.Rule(ruleNulls, "a sort is replaced by a merge only after its null placement was consulted: in every function of compiler/optimizer that builds a dag.Merge while handling a *dag.Sort, the block that builds the merge is reachable through only one edge of a dominating test whose condition derives from the sort's NullsFirst (a direct load, or a callee that receives the sort and reads it)")
	// which Sort fields does fn read, directly or through callees that receive a *dag.Sort?
	var readsOf func(fn *ssa.Function, depth int, seen map[*ssa.Function]bool) map[string]bool
	readsOf = func(fn *ssa.Function, depth int, seen map[*ssa.Function]bool) map[string]bool {
		out := map[string]bool{}
		if seen[fn] || depth > 3 {
			return out
		}
		seen[fn] = true
		for _, b := range fn.Blocks {
			for _, in := range b.Instrs {
				switch x := in.(type) {
				case *ssa.FieldAddr:
					if namedOf(x.X.Type()) == "compiler/ast/dag.Sort" {
						out["Sort."+fieldName(x.X.Type(), x.Field)] = true
					}
					if namedOf(x.X.Type()) == "compiler/ast/dag.SortExpr" {
						out["SortExpr."+fieldName(x.X.Type(), x.Field)] = true
					}
				case *ssa.Field:
					if namedOf(x.X.Type()) == "compiler/ast/dag.SortExpr" {
						out["SortExpr."+fieldName(x.X.Type(), x.Field)] = true
					}
				case ssa.CallInstruction:
					callee := x.Common().StaticCallee()
					if callee == nil || callee.Blocks == nil || p.PkgOf(callee) != "compiler/optimizer" {
						continue
					}
					passes := false
					for _, a := range x.Common().Args {
						if namedOf(a.Type()) == "compiler/ast/dag.Sort" {
							passes = true
						}
					}
					if passes {
						for k := range readsOf(callee, depth+1, seen) {
							out["via:"+k] = true
						}
					}
				}
			}
		}
		return out
	}
	has := func(m map[string]bool, k string) bool { return m[k] || m["via:"+k] || m["via:via:"+k] || m["via:via:via:"+k] }
	nRev, nNulls := 0, 0
	for _, fn := range p.FuncsIn("compiler/optimizer") {
		if fn.Parent() != nil {
			continue
		}
		direct := map[string]bool{}
		buildsMerge := false
		var mergePos, orderPos token.Pos
		for _, b := range fn.Blocks {
			for _, in := range b.Instrs {
				switch x := in.(type) {
				case *ssa.FieldAddr:
					if namedOf(x.X.Type()) == "compiler/ast/dag.Sort" {
						direct["Sort."+fieldName(x.X.Type(), x.Field)] = true
					}
					if namedOf(x.X.Type()) == "compiler/ast/dag.SortExpr" && fieldName(x.X.Type(), x.Field) == "Order" {
						direct["SortExpr.Order"] = true
						orderPos = x.Pos()
					}
				case *ssa.Alloc:
					if pt, ok := x.Type().Underlying().(*types.Pointer); ok && namedOf(pt.Elem()) == "compiler/ast/dag.Merge" {
						buildsMerge = true
						mergePos = x.Pos()
					}
				}
			}
		}
		all := readsOf(fn, 0, map[*ssa.Function]bool{})
		if direct["SortExpr.Order"] && direct["Sort.Args"] {
			// value-level: an Order stored into a dag.Merge must depend on Reverse
			for _, b := range fn.Blocks {
				for _, in := range b.Instrs {
					st, ok := in.(*ssa.Store)
					if !ok {
						continue
					}
					fa, ok := st.Addr.(*ssa.FieldAddr)
					if !ok || namedOf(fa.X.Type()) != "compiler/ast/dag.Merge" || fieldName(fa.X.Type(), fa.Field) != "Order" {
						continue
					}
					fromSort := dependsOnCtl(st.Val, func(v ssa.Value) bool {
						f, ok := v.(*ssa.FieldAddr)
						return ok && namedOf(f.X.Type()) == "compiler/ast/dag.SortExpr" && fieldName(f.X.Type(), f.Field) == "Order"
					})
					if !fromSort {
						continue
					}
					nRev++
					construct := fnName(fn) + " stores a sort argument's Order into dag.Merge.Order"
					if dependsOnCtl(st.Val, func(v ssa.Value) bool {
						f, ok := v.(*ssa.FieldAddr)
						return ok && namedOf(f.X.Type()) == "compiler/ast/dag.Sort" && fieldName(f.X.Type(), f.Field) == "Reverse"
					}) {
						c.OK(ruleRev, construct, st.Pos(), "the stored order depends on Reverse")
					} else {
						c.Fail(ruleRev, construct, st.Pos(), "the merge order is the argument's Order regardless of the sort's Reverse flag: after `sort -r` is split into per-leg sorts and a merge, the merge runs in the opposite direction and the output is not sorted")
					}
				}
			}
			nRev++
			construct := fnName(fn) + " reads the Order of a sort argument"
			if has(all, "Sort.Reverse") {
				c.OK(ruleRev, construct, orderPos, "Reverse is read as well")
			} else {
				c.Fail(ruleRev, construct, orderPos, "the argument's Order is used without the sort's Reverse flag: for `sort -r` the derived order (merge order, propagated sort key) is the opposite of what the sort produces, so the optimized plan returns rows in another order")
			}
		}
		if buildsMerge && direct["Sort.Args"] {
			nNulls++
			construct := fnName(fn) + " builds a dag.Merge from a dag.Sort"
			// the construction of the merge must be control-dependent on that consultation: an If whose
			// condition derives from NullsFirst (a direct load, or a call that receives the sort and
			// reads NullsFirst) dominates the block that builds the merge
			consulted := false
			var mergeBlock *ssa.BasicBlock
			for _, b := range fn.Blocks {
				for _, in := range b.Instrs {
					if al, ok := in.(*ssa.Alloc); ok {
						if pt, ok := al.Type().Underlying().(*types.Pointer); ok && namedOf(pt.Elem()) == "compiler/ast/dag.Merge" {
							mergeBlock = b
						}
					}
				}
			}
			readsNullsFirst := func(v ssa.Value) bool {
				switch x := v.(type) {
				case *ssa.FieldAddr:
					return namedOf(x.X.Type()) == "compiler/ast/dag.Sort" && fieldName(x.X.Type(), x.Field) == "NullsFirst"
				case *ssa.Call:
					callee := x.Common().StaticCallee()
					if callee == nil || p.PkgOf(callee) != "compiler/optimizer" {
						return false
					}
					for _, a := range x.Common().Args {
						if namedOf(a.Type()) == "compiler/ast/dag.Sort" {
							return has(readsOf(callee, 0, map[*ssa.Function]bool{}), "Sort.NullsFirst")
						}
					}
				}
				return false
			}
			for _, gb := range fn.Blocks {
				if mergeBlock == nil || len(gb.Instrs) == 0 || gb == mergeBlock || !gb.Dominates(mergeBlock) {
					continue
				}
				if iff, ok := gb.Instrs[len(gb.Instrs)-1].(*ssa.If); ok && dependsOn(iff.Cond, readsNullsFirst) {
					// the merge must be reachable through one edge of this If only
					if !(reachesBlock(gb.Succs[0], mergeBlock, gb) && reachesBlock(gb.Succs[1], mergeBlock, gb)) {
						consulted = true
					}
				}
			}
			if has(all, "Sort.NullsFirst") && consulted {
				c.OK(ruleNulls, construct, mergePos, "the merge is built only on one side of a test that consults NullsFirst")
			} else {
				c.Fail(ruleNulls, construct, mergePos, "a sort is split into per-leg sorts plus a merge without looking at its null placement: the merge orders nulls as the maximum value, the sort may not (`sort -nulls first`, `sort -r`), so with more than one leg the output is not sorted")
			}
		}
	}
	if nRev < 2 {
		c.Undecided(ruleRev, "compiler/optimizer", "fewer than 2 readers of a sort argument's Order ("+sprint(nRev)+")")
	}
	if nNulls < 1 {
		c.Undecided(ruleNulls, "compiler/optimizer", "no function builds a merge from a sort")
	}
}

// dependsOnCtl is dependsOn extended with an approximation of control dependence: the value of a
// phi also depends on the conditions that select among its edges.
func dependsOnCtl(v ssa.Value, pred func(ssa.Value) bool) bool {
	seen := map[ssa.Value]bool{}
	var visit func(v ssa.Value) bool
	visit = func(v ssa.Value) bool {
		if v == nil || seen[v] {
			return false
		}
		seen[v] = true
		if pred(v) {
			return true
		}
		in, ok := v.(ssa.Instruction)
		if !ok {
			return false
		}
		for _, op := range in.Operands(nil) {
			if op != nil && *op != nil && visit(*op) {
				return true
			}
		}
		if phi, ok := v.(*ssa.Phi); ok {
			stop := phi.Block().Idom()
			for _, pb := range phi.Block().Preds {
				for b := pb; b != nil; b = b.Idom() {
					if len(b.Instrs) > 0 {
						if iff, ok := b.Instrs[len(b.Instrs)-1].(*ssa.If); ok && visit(iff.Cond) {
							return true
						}
					}
					if b == stop {
						break
					}
				}
			}
		}
		if a, ok := v.(*ssa.Alloc); ok {
			for _, r := range *a.Referrers() {
				switch x := r.(type) {
				case *ssa.Store:
					if x.Addr == a && visit(x.Val) {
						return true
					}
				case *ssa.FieldAddr:
					for _, rr := range *x.Referrers() {
						if st, ok := rr.(*ssa.Store); ok && st.Addr == ssa.Value(x) && visit(st.Val) {
							return true
						}
					}
				case *ssa.IndexAddr:
					for _, rr := range *x.Referrers() {
						if st, ok := rr.(*ssa.Store); ok && st.Addr == ssa.Value(x) && visit(st.Val) {
							return true
						}
					}
				}
			}
		}
		return false
	}
	return visit(v)
}

// ---- C08-D4: the tail of a split summarize groups by key name.
func runSplitSummarizeTailKeys(c *Ctx, rule string) {
	p := c.P
	c.Rule(rule, "when a summarize is split into per-leg partial aggregations and a combining tail, the tail's key expressions are replaced by references to the key names (Keys[k].RHS = Keys[k].LHS) on the path that sets PartialsIn: the legs have already evaluated the key expressions, so evaluating them again on partial rows regroups computed keys wrongly")
	fn := p.Func("(*compiler/optimizer.Optimizer).liftIntoParPaths")
	if fn == nil {
		c.Undecided(rule, "liftIntoParPaths", "anchor does not resolve")
		return
	}
	var setIn *ssa.Store
	for _, b := range fn.Blocks {
		for _, in := range b.Instrs {
			st, ok := in.(*ssa.Store)
			if !ok {
				continue
			}
			if fa, ok := st.Addr.(*ssa.FieldAddr); ok && namedOf(fa.X.Type()) == "compiler/ast/dag.Summarize" && fieldName(fa.X.Type(), fa.Field) == "PartialsIn" {
				setIn = st
			}
		}
	}
	if setIn == nil {
		c.Undecided(rule, "liftIntoParPaths", "store to Summarize.PartialsIn not found")
		return
	}
	ok := false
	var pos token.Pos
	for _, b := range fn.Blocks {
		for _, in := range b.Instrs {
			st, isSt := in.(*ssa.Store)
			if !isSt {
				continue
			}
			fa, isFa := st.Addr.(*ssa.FieldAddr)
			if !isFa || namedOf(fa.X.Type()) != "compiler/ast/dag.Assignment" || fieldName(fa.X.Type(), fa.Field) != "RHS" {
				continue
			}
			fromLHS := dependsOn(st.Val, func(v ssa.Value) bool {
				f, ok := v.(*ssa.FieldAddr)
				return ok && namedOf(f.X.Type()) == "compiler/ast/dag.Assignment" && fieldName(f.X.Type(), f.Field) == "LHS"
			})
			onKeys := dependsOn(fa.X, func(v ssa.Value) bool {
				f, ok := v.(*ssa.FieldAddr)
				return ok && namedOf(f.X.Type()) == "compiler/ast/dag.Summarize" && fieldName(f.X.Type(), f.Field) == "Keys"
			})
			if fromLHS && onKeys && setIn.Block().Dominates(b) && inCycle(fn, st) {
				ok, pos = true, st.Pos()
			}
		}
	}
	if ok {
		c.OK(rule, "liftIntoParPaths summarize tail keys", pos, "Keys[k].RHS = Keys[k].LHS for every key after PartialsIn is set")
	} else {
		c.Fail(rule, "liftIntoParPaths summarize tail keys", setIn.Pos(), "the combining summarize keeps the original key expressions: it evaluates them on the partial rows produced by the legs (where the key already holds the computed value), so groups with computed keys are merged wrongly and results depend on the degree of parallelism")
	}
}

// ---- C07-K2 / C08-K2: an operator that rewrites a parent or a child of the sort key ends the order.
func runSortKeyOverlap(c *Ctx, rule string) {
	p := c.P
	c.Rule(rule, "analyzeSortKeys keeps the input order through drop, put and rename only after testing that the rewritten field neither contains nor is contained in the sort key (a prefix test in both directions; equality alone misses `drop a` for key a.b): otherwise the operator is lifted in front of the merge of a parallel scan and the merge runs on a key that no longer exists")
	fn := p.Func("(*compiler/optimizer.Optimizer).analyzeSortKeys")
	if fn == nil {
		c.Undecided(rule, "analyzeSortKeys", "anchor does not resolve")
		return
	}
	decl := p.Decl(fn)
	info := p.pkgOfFunc(fn).TypesInfo
	// is call a two-way prefix test?
	twoWay := func(call *ast.CallExpr) bool {
		var obj types.Object
		switch f := call.Fun.(type) {
		case *ast.Ident:
			obj = info.Uses[f]
		case *ast.SelectorExpr:
			obj = info.Uses[f.Sel]
		}
		tf, ok := obj.(*types.Func)
		if !ok {
			return false
		}
		sf := p.SSA.FuncValue(tf)
		if sf == nil || sf.Blocks == nil {
			return false
		}
		// both parameters appear as receiver of HasPrefix
		recvs := map[ssa.Value]bool{}
		for _, ci := range allCalls(sf) {
			nm := calleeName(ci.Common())
			if nm == "(pkg/field.Path).HasPrefix" || nm == "(pkg/field.Path).HasStrictPrefix" {
				recvs[stripConv(ci.Common().Args[0])] = true
			}
		}
		n := 0
		for _, prm := range sf.Params {
			if recvs[prm] {
				n++
			}
		}
		return n >= 2
	}
	want := map[string]bool{"compiler/ast/dag.Drop": true, "compiler/ast/dag.Put": true, "compiler/ast/dag.Rename": true}
	seen := 0
	ast.Inspect(decl.Body, func(nd ast.Node) bool {
		cc, ok := nd.(*ast.CaseClause)
		if !ok || len(cc.List) != 1 {
			return true
		}
		t := info.TypeOf(cc.List[0])
		if t == nil || !want[namedOf(t)] {
			return true
		}
		seen++
		has := false
		hasPrefixDirs := 0
		for _, st := range cc.Body {
			ast.Inspect(st, func(x ast.Node) bool {
				call, ok := x.(*ast.CallExpr)
				if !ok {
					return true
				}
				if twoWay(call) {
					has = true
				}
				if sel, ok := call.Fun.(*ast.SelectorExpr); ok && (sel.Sel.Name == "HasPrefix" || sel.Sel.Name == "HasStrictPrefix") {
					hasPrefixDirs++
				}
				return true
			})
		}
		construct := "analyzeSortKeys case " + namedOf(t)
		if has || hasPrefixDirs >= 2 {
			c.OK(rule, construct, cc.Pos(), "order kept only after a two-way prefix test against the sort key")
		} else {
			c.Fail(rule, construct, cc.Pos(), "the rewritten field is only compared with the sort key for equality: rewriting a parent of the key (`drop a`, `put a:=…`, `rename x:=a` with key a.b) is taken to preserve the order, so the operator is lifted into the legs of a parallel scan and the merge that follows compares a key that is gone — the output order changes with the degree of parallelism")
		}
		return true
	})
	if seen != 3 {
		c.Undecided(rule, "analyzeSortKeys", "expected the cases Drop, Put and Rename, found "+sprint(seen))
	}
}

// ---- C08-M2: only a single-key sort is split into per-leg sorts and a merge.
func runLiftedSortSingleKey(c *Ctx, rule string) {
	p := c.P
	c.Rule(rule, "a sort is copied into the parallel legs only where it was tested to have exactly one key: the merge that recombines the legs compares a single expression, so ties on the first key of a multi-key sort would come out in leg order")
	fn := p.Func("(*compiler/optimizer.Optimizer).liftIntoParPaths")
	if fn == nil {
		c.Undecided(rule, "liftIntoParPaths", "anchor does not resolve")
		return
	}
	// the Sort case: blocks dominated by the ok-edge of the assertion to *dag.Sort
	var sortOK *ssa.Extract
	for _, b := range fn.Blocks {
		for _, in := range b.Instrs {
			if ta, ok := in.(*ssa.TypeAssert); ok && ta.CommaOk && short(ta.AssertedType.String()) == "*compiler/ast/dag.Sort" {
				for _, r := range *ta.Referrers() {
					if ex, ok := r.(*ssa.Extract); ok && ex.Index == 1 {
						sortOK = ex
					}
				}
			}
		}
	}
	if sortOK == nil {
		c.Undecided(rule, "liftIntoParPaths", "the Sort case was not found")
		return
	}
	n := 0
	for _, ci := range allCalls(fn) {
		if calleeName(ci.Common()) != "compiler/optimizer.copyOp" {
			continue
		}
		blk := ci.(ssa.Instruction).Block()
		if !trueEdgeDominatesOrSelf(sortOK, blk) {
			continue
		}
		n++
		guarded := false
		for _, gb := range fn.Blocks {
			iff, ok := gb.Instrs[len(gb.Instrs)-1].(*ssa.If)
			if !ok || !gb.Dominates(blk) || gb == blk {
				continue
			}
			cmp, ok := iff.Cond.(*ssa.BinOp)
			if !ok {
				continue
			}
			k, isK := cmp.Y.(*ssa.Const)
			if !isK || k.Value == nil || k.Int64() != 1 {
				continue
			}
			lenOfArgs := dependsOn(cmp.X, func(v ssa.Value) bool {
				fa, ok := v.(*ssa.FieldAddr)
				return ok && namedOf(fa.X.Type()) == "compiler/ast/dag.Sort" && fieldName(fa.X.Type(), fa.Field) == "Args"
			})
			if !lenOfArgs {
				continue
			}
			if (cmp.Op == token.NEQ && falseEdgeDominatesOrSelf(cmp, blk)) || (cmp.Op == token.EQL && trueEdgeDominatesOrSelf(cmp, blk)) {
				guarded = true
			}
		}
		construct := "liftIntoParPaths copies a sort into the legs"
		if guarded {
			c.OK(rule, construct, ci.Pos(), "only a sort with exactly one key")
		} else {
			c.Fail(rule, construct, ci.Pos(), "a sort with more than one key can be copied into the legs: each leg is sorted on all keys but the legs are merged on the first key only, so records that tie on it come out in whatever order the merge takes them from the legs — `sort a, b` is no longer sorted on b once the scan runs in parallel")
		}
	}
	if n == 0 {
		c.Undecided(rule, "liftIntoParPaths", "no copy of a sort into the legs found")
	}
}

// ---- C07-M1: a merge is only as ordered as what it merges.
func runMergeOrderNeedsSortedParents(c *Ctx, rule string) {
	p := c.P
	c.Rule(rule, "propagateSortKeyOp reports a merge as sorted on its key only where that key was compared with the sort key of the merge's parents: merging unsorted legs yields no order, and a summarize that is told otherwise releases groups early from an unsorted stream (keys come out several times with split aggregates)")
	fn := p.Func("(*compiler/optimizer.Optimizer).propagateSortKeyOp")
	if fn == nil {
		c.Undecided(rule, "propagateSortKeyOp", "anchor does not resolve")
		return
	}
	var mergeOK *ssa.Extract
	for _, b := range fn.Blocks {
		for _, in := range b.Instrs {
			if ta, ok := in.(*ssa.TypeAssert); ok && ta.CommaOk && short(ta.AssertedType.String()) == "*compiler/ast/dag.Merge" {
				for _, r := range *ta.Referrers() {
					if ex, ok := r.(*ssa.Extract); ok && ex.Index == 1 {
						mergeOK = ex
					}
				}
			}
		}
	}
	if mergeOK == nil {
		c.Undecided(rule, "propagateSortKeyOp", "the Merge case was not found")
		return
	}
	n := 0
	for _, b := range fn.Blocks {
		ret, ok := b.Instrs[len(b.Instrs)-1].(*ssa.Return)
		if !ok || !trueEdgeDominatesOrSelf(mergeOK, b) {
			continue
		}
		n++
		compared := dependsOnCtl(returnOperand(ret, 0), func(v ssa.Value) bool {
			call, ok := v.(*ssa.Call)
			return ok && calleeName(&call.Call) == "(order.SortKeys).Equal"
		})
		construct := "propagateSortKeyOp case dag.Merge"
		if compared {
			c.OK(rule, construct, ret.Pos(), "the merge key is reported only if it equals the parents' sort key")
		} else {
			c.Fail(rule, construct, ret.Pos(), "the merge key is reported as the output order whatever is known about the legs: after `fork … | merge k | summarize … by k` is split into per-leg partial summarizes (whose output is unordered) the combining summarize is still told its input is sorted on k and releases groups at batch boundaries — a key is emitted as several rows")
		}
	}
	if n == 0 {
		c.Undecided(rule, "propagateSortKeyOp", "no return in the Merge case found")
	}
}

// ---- C07-K3 / C08-K3: after a cut only a copy of the sort key is ordered.
func runCutOrderFromCopies(c *Ctx, rule string) {
	p := c.P
	c.Rule(rule, "analyzeCuts reports an output field of a cut as ordered only if an assignment copies the sort key into it: its scoreboard is filled from assignment left-hand sides only, never seeded with the input's key (the output of a cut has only the assigned fields — a cut that does not mention the key loses the order with it)")
	fn := p.Func("compiler/optimizer.analyzeCuts")
	if fn == nil {
		c.Undecided(rule, "compiler/optimizer.analyzeCuts", "anchor does not resolve")
		return
	}
	var keysParam *ssa.Parameter
	for _, prm := range fn.Params {
		if namedOf(prm.Type()) == "order.SortKeys" {
			keysParam = prm
		}
	}
	n, bad := 0, token.NoPos
	for _, b := range fn.Blocks {
		for _, in := range b.Instrs {
			mu, ok := in.(*ssa.MapUpdate)
			if !ok {
				continue
			}
			n++
			if keysParam != nil && dependsOn(mu.Key, func(v ssa.Value) bool { return v == ssa.Value(keysParam) }) {
				bad = mu.Pos()
			}
		}
	}
	switch {
	case n == 0:
		c.Undecided(rule, "compiler/optimizer.analyzeCuts", "no scoreboard update found")
	case bad.IsValid():
		c.Fail(rule, "compiler/optimizer.analyzeCuts scoreboard", bad, "the scoreboard is seeded with the input's sort key: a cut that does not mention the key (`cut x`) is still reported as ordered on it, so the cut is lifted into the legs of a parallel scan and the legs are merged on a field that no longer exists — the output comes out in object-sized chunks out of order")
	default:
		c.OK(rule, "compiler/optimizer.analyzeCuts scoreboard", fn.Pos(), "filled from assignment left-hand sides only")
	}
}
