package main

func init() {
	addMutants(
		// C13
		Mutant{"C13", "c13-compact-deletes-sources", "lake/branch.go", "Branch.CommitCompact",
			"for _, o := range src {\n\t\t\tif err := patch.DeleteObject(o.ID); err != nil {\n\t\t\t\treturn nil, err\n\t\t\t}\n\t\t}", "for _, o := range src {\n\t\t\tif err := patch.DeleteObject(o.ID); err != nil {\n\t\t\t\treturn nil, err\n\t\t\t}\n\t\t\tb.engine.Delete(ctx, data.SequenceURI(b.pool.DataPath, o.ID))\n\t\t}", "C13-W1", "called from (*lake.Branch).CommitCompact"},
		Mutant{"C13", "c13-lister-resolves-name", "runtime/sam/op/meta/lister.go", "NewSortedLister",
			"snap, err := pool.Snapshot(ctx, commit)", "if b, berr := pool.LookupBranchByName(ctx, \"main\"); berr == nil {\n\t\tcommit = b.Commit\n\t}\n\tsnap, err := pool.Snapshot(ctx, commit)", "C13-R1", "NewSortedLister"},
		Mutant{"C13", "c13-mutate-cached-base", "lake/commits/store.go", "Store.Snapshot",
			"snap = base.Copy()", "snap = base", "C13-M1", "(*lake/commits.Store).Snapshot"},
		Mutant{"C13", "c13-compact-mutates-snapshot", "runtime/exec/compact.go", "Compact",
			"compact := commits.NewSnapshot()", "compact, _ := base.(*commits.Snapshot)", "C13-M1", "runtime/exec.Compact"},
		// C14
		Mutant{"C14", "c14-vacuum-noguard", "lake/commits/store.go", "Store.Vacuumable",
			"if !snap.Exists(a.Object.ID) {", "if snap.Exists(a.Object.ID) || true {", "C14-V1", "Vacuumable send"},
		Mutant{"C14", "c14-slicer-nullsmin", "runtime/sam/op/meta/slicer.go", "NewSlicer",
			"expr.NewValueCompareFn(order.Asc, true)", "expr.NewValueCompareFn(order.Asc, false)", "C14-N1", "meta.NewSlicer"},
		Mutant{"C14", "c14-load-ignores-close", "lake/branch.go", "Branch.Load",
			"if closeErr := w.Close(); err == nil {\n\t\terr = closeErr\n\t}", "w.Close()", "C14-O1", "(*lake.Branch).Load"},
		Mutant{"C14", "c14-compact-commit-before-close", "runtime/exec/compact.go", "Compact",
			"if err := w.Close(); err != nil {\n\t\tw.Abort()\n\t\treturn ksuid.Nil, err\n\t}", "defer w.Close()", "C14-O1", "runtime/exec.Compact"},
		Mutant{"C14", "c14-sortobjects-unstable", "runtime/sam/op/meta/lister.go", "sortObjects",
			"sort.SliceStable(", "sort.Slice(", "C14-S1", "sortObjects"},
		Mutant{"C14", "c14-deleter-drops-nonbool", "compiler/kernel/filter.go", "deleteSurvivor.Eval",
			"!(val.Type() == zed.TypeBool && val.Bool())", "!(val.Type() != zed.TypeBool || val.Bool())", "C14-P2", "survivor predicate"},
		Mutant{"C14", "c14-deleter-other-predicate", "compiler/kernel/filter.go", "DeleteFilter.AsEvaluator",
			"f.builder.compileExpr(f.pushdown)", "f.builder.compileExpr(&dag.Literal{Kind: \"Literal\", Value: \"false\"})", "C14-W1", "AsEvaluator"},
		Mutant{"C14", "c14-deleter-inherits-bufferfilter", "compiler/kernel/filter.go", "",
			"func (f *DeleteFilter) AsBufferFilter() (*expr.BufferFilter, error) {\n\treturn nil, nil\n}", "", "C14-W1", "AsBufferFilter"},
		// C15
		Mutant{"C15", "c15-lookup-ignores-deletes", "lake/commits/patch.go", "Patch.Lookup",
			"if slices.Contains(p.deletedObjects, id) {\n\t\t// Deleted from the base by this patch.\n\t\treturn nil, fmt.Errorf(\"%s: %w\", id, ErrNotFound)\n\t}\n", "", "C15-K1", "Lookup reads deletedObjects"},
		Mutant{"C15", "c15-selectall-ignores-deletes", "lake/commits/patch.go", "Patch.SelectAll",
			"objects := p.withoutDeleted(p.base.SelectAll())", "objects := p.base.SelectAll()", "C15-K1", "SelectAll reads deletedObjects"},
		Mutant{"C15", "c15-diff-error-ignored", "lake/branch.go", "Branch.buildMergeObject",
			"diff, err := commits.Diff(parentPatch, childPatch)\n\tif err != nil {\n\t\treturn nil, fmt.Errorf(\"error merging %q into %q: %w\", b.Name, parent.Name, err)\n\t}", "diff, _ := commits.Diff(parentPatch, childPatch)\n\tif diff == nil {\n\t\tdiff = commits.NewPatch(parentPatch)\n\t}", "C15-E1", "lake/commits.Diff"},
		Mutant{"C15", "c15-revert-stale", "lake/branch.go", "Branch.Revert",
			"tip, err := b.pool.commits.Snapshot(ctx, parent.Commit)", "tip, err := b.pool.commits.Snapshot(ctx, b.Commit)", "C15-P3", "(*lake.Branch).Revert"},
		// C17
		Mutant{"C17", "c17-update-before-put", "lake/branch.go", "Branch.commit",
			"if err := b.pool.commits.Put(ctx, object); err != nil {\n\t\t\treturn ksuid.Nil, fmt.Errorf(\"branch %q failed to write commit object: %w\", b.Name, err)\n\t\t}\n", "defer b.pool.commits.Put(ctx, object)\n", "C17-O1", "(*lake.Branch).commit"},
		Mutant{"C17", "c17-head-before-entry", "lake/journal/queue.go", "Queue.CommitAt",
			"uri := q.uri(at + 1)\n", "uri := q.uri(at + 1)\n\tif err := q.writeHead(ctx, at+1); err != nil {\n\t\treturn err\n\t}\n\tdefer func() { recover() }()\n", "C17-O3", "CommitAt"},
		Mutant{"C17", "c17-magic-first", "lake/root.go", "Root.createConfig",
			"r.pools, err = pools.CreateStore(ctx, r.engine, r.logger, poolPath)\n\tif err != nil {\n\t\treturn err\n\t}\n\treturn r.writeLakeMagic(ctx)", "if err := r.writeLakeMagic(ctx); err != nil {\n\t\treturn err\n\t}\n\tr.pools, err = pools.CreateStore(ctx, r.engine, r.logger, poolPath)\n\treturn err", "C17-O4", "createConfig"},
		Mutant{"C17", "c17-drop-data-first", "lake/root.go", "Root.RemovePool",
			"if err := r.pools.Remove(ctx, *config); err != nil {\n\t\treturn err\n\t}", "if err := RemovePool(ctx, r.engine, r.path, config); err != nil {\n\t\treturn err\n\t}\n\tif err := r.pools.Remove(ctx, *config); err != nil {\n\t\treturn err\n\t}", "C17-O5", "(*lake.Root).RemovePool"},
		Mutant{"C17", "c17-deletewhere-ignores-close", "lake/branch.go", "Branch.DeleteWhere",
			"if closeErr := w.Close(); err == nil {\n\t\t\terr = closeErr\n\t\t}", "w.Close()", "C17-O2", "(*lake.Branch).DeleteWhere"},
		Mutant{"C17", "c17-tail-before-head", "lake/journal/queue.go", "Create",
			"if err := q.writeHead(ctx, Nil); err != nil {\n\t\treturn nil, err\n\t}\n", "", "C17-O4", "lake/journal.Create"},
	)
}
