package main

import (
	"go/token"
	"go/types"
	"sort"
	"strings"

	"golang.org/x/tools/go/ssa"
)

func isHandler(fn *ssa.Function) bool {
	if fn.Parent() != nil || fn.Signature.Recv() != nil {
		return false
	}
	ps := fn.Signature.Params()
	if ps.Len() != 3 {
		return false
	}
	return namedOf(ps.At(0).Type()) == "service.Core" && namedOf(ps.At(1).Type()) == "service.ResponseWriter" && namedOf(ps.At(2).Type()) == "service.Request"
}

// reporting calls: the error (or some error) is sent to the client.
func isReportCall(in ssa.Instruction) bool {
	ci, ok := in.(ssa.CallInstruction)
	if !ok {
		return false
	}
	cc := ci.Common()
	if calleeBare(cc) == "WriteHeader" {
		return true
	}
	switch calleeName(cc) {
	case "(*service.ResponseWriter).Error", "(*api/queryio.Writer).WriteError", "(*service.ResponseWriter).WriteHeader", "(*service.ResponseWriter).Respond":
		return true
	}
	// a local closure that itself reports (handleError := func(err error){ writer.WriteError(err) ... })
	if v := cc.Value; v != nil && !cc.IsInvoke() {
		var g *ssa.Function
		switch x := v.(type) {
		case *ssa.MakeClosure:
			g, _ = x.Fn.(*ssa.Function)
		case *ssa.Function:
			g = x
		}
		if g != nil && g.Parent() != nil {
			for _, c2 := range allCalls(g) {
				if calleeName(c2.Common()) == "(*api/queryio.Writer).WriteError" || calleeName(c2.Common()) == "(*service.ResponseWriter).Error" {
					return true
				}
			}
		}
	}
	return false
}

func runC19(c *Ctx, tier string) {
	p := c.P
	runServiceResolvesNamesFresh(c, "C19-N1")
	c.Rule("C19-E1", "handlers report every error: in every service handler, an error result is never dropped, and on the branch where it is non-nil every path to a return passes a report to the client (w.Error / WriteError / handleError / an explicit status)")
	c.Rule("C19-E2", "late errors are written in-band on every path: every path through queryio.Writer.WriteControl reaches a write on the response")
	c.Rule("C19-K1", "control-message tables agree: every api.Query* type the server writes is bound in the client's unmarshaler and has an arm in the client scanner; QueryError becomes a returned error")
	c.Rule("C19-K2", "no stub behind the shared interface: every method of lake/api.remote issues a request on its client.Connection")

	// E1
	var handlers []*ssa.Function
	for _, fn := range p.FuncsIn("service") {
		if isHandler(fn) {
			handlers = append(handlers, fn)
		}
	}
	sort.Slice(handlers, func(i, j int) bool { return handlers[i].String() < handlers[j].String() })
	if len(handlers) < 20 {
		c.Undecided("C19-E1", "service handlers", "fewer than 20 handlers found")
	}
	for _, h := range handlers {
		fns := []*ssa.Function{h}
		for _, an := range h.AnonFuncs {
			if !isGoroutineBody(h, an) {
				fns = append(fns, an)
			}
		}
		for _, fn := range fns {
			if fn != h && errIndex(fn.Signature) >= 0 {
				continue // a closure that returns its error to the handler: checked at its call
			}
			for _, ci := range allCalls(fn) {
				cc := ci.Common()
				if errIndex(cc.Signature()) < 0 || isReportCall(ci.(ssa.Instruction)) {
					continue
				}
				name := calleeName(cc)
				if name == "" {
					name = "function value"
				}
				construct := fnName(h) + " -> " + name
				if _, ok := c19Exempt[construct]; ok {
					c.OK("C19-E1", construct, ci.Pos(), "exempt: "+c19Exempt[construct])
					continue
				}
				if strings.HasPrefix(name, "fmt.Print") {
					continue
				}
				call, isCall := ci.(*ssa.Call)
				if !isCall {
					continue // deferred cleanup (Close, Remove, Pull(true)) after the response was decided
				}
				ev := errValueOf(call)
				if ev == nil {
					c.Fail("C19-E1", construct, ci.Pos(), "the error of "+name+" is dropped: direct access reports it, the service answers as if the operation succeeded")
					continue
				}
				if ret := errDeadOnSomePath(call); ret != nil {
					c.Fail("C19-E1", construct, ci.Pos(), "the error of "+name+" is looked at on some paths only: the handler can return at "+p.Pos(ret.Pos())+" without ever testing or reporting it")
					continue
				}
				tests := errFlowsToTest(ev)
				if len(tests) == 0 {
					u := usesOfErr(ev)
					if u.passed || u.stored || u.sent || u.returned {
						c.OK("C19-E1", construct, ci.Pos(), "error passed on")
					} else {
						c.Fail("C19-E1", construct, ci.Pos(), "the error of "+name+" is never looked at")
					}
					continue
				}
				bad := false
				for _, t := range tests {
					for _, r := range *t.Referrers() {
						iff, ok := r.(*ssa.If)
						if !ok {
							continue
						}
						arm := iff.Block().Succs[0]
						if len(arm.Instrs) == 0 {
							continue
						}
						isRet := func(x ssa.Instruction) bool { _, ok := x.(*ssa.Return); return ok }
						first := arm.Instrs[0]
						var hit ssa.Instruction
						if isReportCall(first) {
							continue
						}
						if isRet(first) {
							hit = first
						} else {
							hit = reachAvoiding(fn, first, isReportCall, isRet)
						}
						if hit != nil && len(arm.Preds) == 1 {
							bad = true
							c.Fail("C19-E1", construct, hit.Pos(), "when "+name+" fails the handler can return at "+p.Pos(hit.Pos())+" without reporting anything to the client")
						}
					}
				}
				if !bad {
					c.OK("C19-E1", construct, ci.Pos(), "on failure every path reports to the client before returning")
				}
			}
		}
	}

	runC19Pipe(c)
	runListInputsWhole(c, "C19-K3")
	runLateErrorRoutes(c, "C19-E4")
	runRemoteParamsUsed(c, "C19-K4")
	runClientPathEscaping(c, "C19-K5")
	runErrorTestedBeforeUse(c, "C19-E5")
	runPathEscapePairing(c, "C19-K6")
	runQueryTextQuoting(c, "C19-K7")
	// E2
	if fn := p.Func("(*api/queryio.Writer).WriteControl"); fn == nil {
		c.Undecided("C19-E2", "(*api/queryio.Writer).WriteControl", "anchor does not resolve")
	} else {
		writes := func(in ssa.Instruction) bool {
			ci, ok := in.(ssa.CallInstruction)
			if !ok {
				return false
			}
			cc := ci.Common()
			return cc.IsInvoke() && (cc.Method.Name() == "WriteControl" || cc.Method.Name() == "Write")
		}
		isRet := func(in ssa.Instruction) bool { _, ok := in.(*ssa.Return); return ok }
		if r := reachAvoiding(fn, nil, writes, isRet); r != nil {
			c.Fail("C19-E2", "(*api/queryio.Writer).WriteControl", r.Pos(), "a path returns (nil) without writing anything: when control messages are off, or the format writer cannot carry them (zson, csv, json, ndjson), a run-time query error is dropped and the client receives a short, successful response — direct access reports the error")
		} else {
			c.OK("C19-E2", "(*api/queryio.Writer).WriteControl", fn.Pos(), "every path writes to the response")
		}
	}

	// K1
	written := map[string]bool{}
	for _, fn := range p.FuncsIn("api/queryio", "service") {
		for _, ci := range callsTo(fn, "(*api/queryio.Writer).WriteControl") {
			if mi, ok := ci.Common().Args[1].(*ssa.MakeInterface); ok {
				if n := namedOf(mi.X.Type()); strings.HasPrefix(n, "api.") {
					written[n] = true
				}
			}
		}
	}
	bound := map[string]bool{}
	for _, g := range p.FuncsIn("api/queryio") {
		if !strings.HasPrefix(g.Name(), "init") {
			continue
		}
		{
			for _, b := range g.Blocks {
				for _, in := range b.Instrs {
					if mi, ok := in.(*ssa.MakeInterface); ok {
						if n := namedOf(mi.X.Type()); strings.HasPrefix(n, "api.") {
							bound[n] = true
						}
					}
				}
			}
		}
	}
	handled := map[string]bool{}
	pull := p.Func("(*api/queryio.scanner).Pull")
	if pull != nil {
		for _, b := range pull.Blocks {
			for _, in := range b.Instrs {
				if ta, ok := in.(*ssa.TypeAssert); ok {
					if n := namedOf(ta.AssertedType); strings.HasPrefix(n, "api.") {
						handled[n] = true
					}
				}
			}
		}
	}
	if len(written) < 4 || pull == nil {
		c.Undecided("C19-K1", "control messages", "fewer than 4 control message types written by the server, or the client scanner does not resolve")
	}
	for _, t := range setDiff(written, nil) {
		switch {
		case !bound[t]:
			c.Fail("C19-K1", "control message "+t, token.NoPos, "the server writes "+t+" but the client's unmarshaler does not bind it: the client fails on (or misreads) the response")
		case !handled[t]:
			c.Fail("C19-K1", "control message "+t, token.NoPos, "the server writes "+t+" but the client scanner has no arm for it")
		default:
			c.OK("C19-K1", "control message "+t, token.NoPos, "written, bound and handled")
		}
	}
	if pull != nil {
		errMapped := false
		for _, b := range pull.Blocks {
			for _, in := range b.Instrs {
				r, ok := in.(*ssa.Return)
				if !ok || len(r.Results) != 2 {
					continue
				}
				if dependsOn(r.Results[1], func(v ssa.Value) bool { return isFieldOf(v, "api.QueryError", "Error") }) {
					errMapped = true
				}
			}
		}
		if errMapped {
			c.OK("C19-K1", "QueryError becomes an error", pull.Pos(), "the client returns the server's in-band error")
		} else {
			c.Fail("C19-K1", "QueryError becomes an error", pull.Pos(), "the client scanner does not turn an in-band QueryError into a returned error: a failed query looks like a complete result")
		}
	}

	// K2
	iface := ifaceType(p, "lake/api", "Interface")
	var methods []*ssa.Function
	for _, fn := range p.FuncsIn("lake/api") {
		if fn.Parent() == nil && fn.Signature.Recv() != nil && namedOf(fn.Signature.Recv().Type()) == "lake/api.remote" {
			methods = append(methods, fn)
		}
	}
	sort.Slice(methods, func(i, j int) bool { return methods[i].String() < methods[j].String() })
	if iface == nil || len(methods) < 15 {
		c.Undecided("C19-K2", "lake/api.remote", "interface or methods do not resolve")
	}
	for _, m := range methods {
		if iface != nil {
			isIfaceMethod := false
			for i := 0; i < iface.NumMethods(); i++ {
				if iface.Method(i).Name() == m.Name() {
					isIfaceMethod = true
				}
			}
			if !isIfaceMethod {
				continue
			}
		}
		reaches := false
		for g := range reachableStatic([]*ssa.Function{m}, func(f *ssa.Function) bool { return p.PkgOf(f) == "lake/api" }) {
			for _, ci := range allCalls(g) {
				if rt := recvType(ci.Common()); namedOf(rt) == "api/client.Connection" || namedOf(rt) == "lake/api.Interface" {
					reaches = true // directly, or through another Interface method of the same remote
				}
			}
		}
		construct := fnName(m)
		if why, ok := c19Exempt[construct]; ok {
			c.OK("C19-K2", construct, m.Pos(), "exempt: "+why)
			continue
		}
		if reaches {
			c.OK("C19-K2", construct, m.Pos(), "issues a request on the connection")
		} else {
			c.Fail("C19-K2", construct, m.Pos(), "the remote implementation of this lake/api.Interface method never talks to the service: the operation works with direct access and always fails (or silently does nothing) through the service")
		}
	}
	_ = types.Typ
	runClientEncodesDotSegments(c, "C19-K8")
	runCreateBranchParentFromRequest(c, "C19-K9")
	runClientChannelFollowsSet(c, "C19-Q1")
}

var c19Exempt = map[string]string{
	"(*lake/api.remote).Root": "accessor for the local lake root; a remote lake has none (callers test for nil)",
}

// isGoroutineBody: the closure is started with `go` in parent.
func isGoroutineBody(parent, an *ssa.Function) bool {
	for _, gr := range goRoots(parent) {
		if gr.root == an {
			return true
		}
	}
	return false
}

func init() {
	register(&PropertyDef{ID: "C19", Run: runC19,
		Explanation: "Decides structural conditions of service/direct agreement: handlers never drop an error and report it on every failing path (E1), a late error is written in-band on every path (E2: violated on today's tree, genuine known finding), server/client control-message tables agree (K1), no stub behind the shared lake/api.Interface (K2: RemoveBranch, known finding). Does NOT decide equality of state and output between the two access paths.",
		Assumptions: []string{"helpers that take the ResponseWriter (r.Unmarshal(w,..), r.StringFromPath(w,..)) report their own errors and return ok=false"}})
}

// runC19Pipe: E3.  The remote load streams its body through an io.Pipe from a goroutine; the only
// way the producer can tell the HTTP request that the source failed is pw.CloseWithError(err).
// io.Pipe keeps the FIRST close, so nothing may close the pipe writer before that.
func runC19Pipe(c *Ctx) {
	p := c.P
	c.Rule("C19-E3", "a source error during a remote load reaches the request: the pipe writer is closed only by CloseWithError carrying the copy's / writer's error, and is never handed (as a closer) to a writer that would close it first")
	fn := p.Func("(*lake/api.remote).Load")
	if fn == nil {
		c.Undecided("C19-E3", "(*lake/api.remote).Load", "anchor does not resolve")
		return
	}
	fns := append([]*ssa.Function{fn}, fn.AnonFuncs...)
	var pw ssa.Value
	for _, ci := range callsTo(fn, "io.Pipe") {
		if call, ok := ci.(*ssa.Call); ok {
			for _, r := range *call.Referrers() {
				if ex, ok := r.(*ssa.Extract); ok && ex.Index == 1 {
					pw = ex
				}
			}
		}
	}
	if pw == nil {
		c.Undecided("C19-E3", "(*lake/api.remote).Load", "io.Pipe not found")
		return
	}
	isPW := func(v ssa.Value) bool {
		return dependsOn(v, func(w ssa.Value) bool {
			if w == pw {
				return true
			}
			// captured by the goroutine closure
			if fv, ok := w.(*ssa.FreeVar); ok && namedOf(fv.Type()) == "io.PipeWriter" {
				return true
			}
			if u, ok := w.(*ssa.UnOp); ok {
				if fv, ok := u.X.(*ssa.FreeVar); ok && fv.Name() == "pw" {
					return true
				}
			}
			return false
		})
	}
	bad, closeWithErr := false, false
	for _, g := range fns {
		for _, b := range g.Blocks {
			for _, in := range b.Instrs {
				switch x := in.(type) {
				case *ssa.MakeInterface:
					if namedOf(x.X.Type()) != "io.PipeWriter" || !isPW(x.X) {
						continue
					}
					it, _ := x.Type().Underlying().(*types.Interface)
					hasClose := false
					if it != nil {
						for i := 0; i < it.NumMethods(); i++ {
							if it.Method(i).Name() == "Close" {
								hasClose = true
							}
						}
					}
					if !hasClose {
						continue
					}
					for _, r := range *x.Referrers() {
						if call, ok := r.(ssa.CallInstruction); ok && calleeName(call.Common()) != "zio.NopCloser" {
							bad = true
							c.Fail("C19-E3", "(*lake/api.remote).Load pipe ownership", x.Pos(), "the pipe writer is handed as a closer to "+calleeOrDyn(call)+": that writer's Close ends the request body with a clean EOF first, the later CloseWithError(err) is ignored, and a load whose source failed part-way is committed and reported as success (direct access returns the error and commits nothing)")
						}
					}
				case ssa.CallInstruction:
					cc := x.Common()
					switch calleeName(cc) {
					case "(*io.PipeWriter).CloseWithError":
						if isPW(cc.Args[0]) {
							// its argument must carry the errors of the copy and of the writer's Close
							copyErr := dependsOn(cc.Args[1], func(v ssa.Value) bool {
								call, ok := v.(*ssa.Call)
								return ok && (calleeName(call.Common()) == "zio.CopyWithContext" || calleeName(call.Common()) == "zio.Copy")
							})
							if copyErr {
								closeWithErr = true
							}
						}
					case "(*io.PipeWriter).Close":
						if isPW(cc.Args[0]) {
							bad = true
							c.Fail("C19-E3", "(*lake/api.remote).Load pipe ownership", x.Pos(), "the pipe writer is closed without an error: a failed source looks like a complete body")
						}
					}
				}
			}
		}
	}
	if !closeWithErr {
		c.Fail("C19-E3", "(*lake/api.remote).Load error hand-over", fn.Pos(), "the goroutine does not finish with pw.CloseWithError(<error of the copy>)")
	} else if !bad {
		c.OK("C19-E3", "(*lake/api.remote).Load", fn.Pos(), "pipe closed only by CloseWithError(copy/close error); the ZNG writer gets a NopCloser")
	}
}
