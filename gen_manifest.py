#!/usr/bin/env python3
"""Generates MANIFEST.json from the per-property table below (edit here, then run)."""
import json

BASE = json.load(open('/root/.vp/BASELINE.json'))['cmd']

# id -> (claimed?, technique, level text, level note, design ref) ; unclaimed: reason
CLAIMS = {
 'C18': dict(
   technique='static error-flow analysis (go/ssa): dropped / swallowed sink errors, void-flush pairing, buffered-sink must-flush on all paths',
   text='Decides, for every path of every function on the output write path (all methods of every zio.Writer/io.Writer implementer of the output layer, the copy loops, and their static callees; computed from the type-checked program on each run), that no error that can originate at the sink is dropped (E1), compared with nil and discarded (E2), left unfetched in a void flush API (E3), left in an unflushed buffer (E4), lost because the Close of a wrapping writer returns nil without closing the wrapped sink (E5), or overwritten by a deferred closure that assigns the named error result unconditionally (E6). This is the first sentence of the property as a shape-of-code fact; it is path-exhaustive where tests inject no sink faults at all. It does not decide that bytes form a complete readable stream, nor short-write accounting.',
   note='Trusts go/types+go/ssa, the enumerated infallible sinks (bytes.Buffer, strings.Builder, hash.Hash; bufio sticky errors), and that an error passed to any call is handled. Interface calls are the implementer\'s own obligation (all implementers in the output layer are entry points).',
   ref='DESIGN.md §2 C18'),
}
CLAIMS['C16'] = dict(
   technique='AST extraction of the pruner tables + exhaustive finite-order evaluation; SSA provenance / dominance rules for where the pruner comes from and how its result is used',
   text='The pruner touches keys only through comparisons, so its soundness is a fact about small tables in compiler/optimizer. T1 extracts rangePrunerPred, reverseComparator, literalComparison, compare() and the and/or composition of buildRangePruner from the AST of the current tree and checks exhaustively over a 5-point total order plus NULL-as-max that pruner(min,max) implies no key in [min,max] satisfies the predicate (all comparison ops, literal on either side, and/or with opaque or comparison operands). S1/D1/S2/S3/B1/N1 decide on SSA, for all paths: every KeyPruner is derived from the filter actually pushed into that scan and the source sort keys; the deleter never gets one; a pruner result skips only after Type()==TypeBool && Bool(); min/max argument order and metadata tags; only pool-key comparisons reach the table; both publishers of bounds swap for descending pools, and the swap of the object bounds in Writer.Close can never be followed by a seek-index flush (B2: object.Max means last key written while entries are flushed); lake comparators use nullsMax=true. Does not decide agreement between compare() and the filter\'s coercing comparison for mixed-type keys, nor that seek-index bounds are true bounds.',
   note='Trusts the table extractor (fails closed on any unrecognised shape) and that a 5-point order + NULL suffices for comparison-only tables with at most three operands.',
   ref='DESIGN.md §2 C16')
CLAIMS['C05'] = dict(
   technique='lock-state dataflow on SSA (guarded fields, requires-held helpers, deferred-unlock windows, reentrancy), critical-section atomicity by avoid-reachability, ownership of map values, table agreement',
   text='Decides for every path of every function of package zed the structural conditions type canonicity rests on: (L1) Context.byID/toType/toValue/typedefs and Mapper.types are only touched with mu held (write lock for writes), requires-held helpers only called with it; (L2) no call while a deferred unlock is pending on a released mutex; (L3) toType miss, ID allocation and insert happen in one critical section for every enterWithLock call site; (L4) no reentrant acquisition; (W1) toValue only receives pool-owned or cloned bytes, for a freshly constructed type or under a failed presence test (never a caller slice, never an overwrite); (P1) union members sorted by CompareTypes before the type value is computed; (P2) a tvPool buffer is never both recycled and entered; (K1) encoder/decoder type-value tags agree. Does not decide structural-equality <=> pointer-equality as such, CompareTypes being a total order, or def/ref name rebinding between concurrent decoders.',
   note='One receiver per method (mutex instance = receiver); closures run synchronously under the state at their creation unless started with go.',
   ref='DESIGN.md §2 C05')
CLAIMS['C01'] = dict(
   technique='SSA dominance / avoid-reachability over select states and channel fields, pooled-buffer typestate, borrowed-slice escape analysis, encoder/decoder table agreement',
   text='Decides, for every path of the anchored zngio writer/reader functions, the structural conditions the ZNG round trip relies on: a work item is dispatched only in the success arm of queueing its result channel (O1: stream order under any worker schedule); types frame dominates values frame dominates typedef-buffer flush (O2); the type scope is reset on both sides exactly at EOS (O3); every work item gets exactly one send or a close, channels are buffered and every blocking select is cancellable (O4); the pooled frame buffer is released exactly once iff no batch is returned (O5); peeker bytes escape only through a copy (O6); Encoder.encode covers every complex zed.Type and typedef/frame codes agree between writer and reader (K1). Does not decide byte-level inverse-ness of encode/decode, LZ4, tag encoding or Mapper translation.',
   note='Channel identity by struct field (work.resultCh, scanner.resultChCh); synchronous callees do not retain borrowed slices unless they are constructors.',
   ref='DESIGN.md §2 C01')
CLAIMS['C11'] = dict(
   technique='goroutine-root panic containment over the static+CHA call graph, untrusted-integer taint to allocation sinks with direction-aware dominating bounds, sign-conversion checks, decoder-result contradiction rule, channel-protocol typestate',
   text='Decides structural clauses of crash/hang freedom on untrusted input for all paths: (G1) every goroutine started on the reader path has a deferred recover or reaches no explicit panic / panicking codec primitive outside one; (A1/A2/A3) integers originating in uvarints, fixed-width reads or VNG metadata are upper-bounded (by something other than MaxInt) before they size an allocation, and range-checked when converted uint64->int; header section sizes are each bounded; (N1) a decoder result is used only where its nil-rest failure indicator was tested; (P1) input-dependent type-context lookup errors are returned, not raised; (O4) no reader goroutine or consumer can be left blocked. Twelve VNG-reader violations are genuine and recorded as known findings. Does not decide absence of implicit runtime panics (index out of range) on all byte strings, termination of text parsers, or compile-time panics of the semantic analyzer.',
   note='Stdlib interface implementations do not panic; a function with a deferred recover contains its synchronous callees; taint is flow-insensitive across fields except the enumerated metadata structs.',
   ref='DESIGN.md §2 C11')
CLAIMS['C04'] = dict(
   technique='borrowed-value ownership analysis on SSA (E-own), edge-dominance of the exact filter, type-kind coverage between sibling traversals, shared typestate rules',
   text='Decides structural conditions behind encoding independence, for all paths: (P1) in the ZNG scanner a decoded value is kept only on the true arm of the exact filter and only a boolean true passes; (K1) every container kind zed.Walk descends (the search evaluator) is handled by the functions reachable from the buffer filter\'s FieldNameFinder; (W1) the type context only caches bytes it owns; (W2) none of the 26 Write(zed.Value) implementers retains its argument or anything derived from it without a copy; (W3) an operator that releases a pulled batch keeps none of its values without a copy; (B1) the pooled frame buffer is released exactly once and peeker bytes escape only through a copy; (F1) the buffer filter compiled from a predicate over-approximates it for every combination of present/absent sub-filters (truth table over the and/or composition, opAnd/opOr evaluated with && and ||, keyword search combines value and field-name patterns); (K2/O8) caches keyed by numeric type ID (FieldNameFinder memo, MapperLookupCache) are cleared before the IDs of a new type context are looked up; (O7) the per-stream local type context is copied into each work item and never reset in place. Does not decide equality of results across encodings, nor soundness of the buffer filter\'s string patterns.',
   note='Calls leaving the package do not retain their arguments (each implementer is itself an obligation); evaluator results may alias their input; strings are copies except byteconv.UnsafeString.',
   ref='DESIGN.md §2 C04')
CLAIMS['C10'] = dict(
   technique='borrowed-value ownership (E-own) and reader-value lifetime (use-after-next-Read) analyses on SSA, backward-slice dependence of the group key, stub detection',
   text='Decides structural conditions behind memory-limit independence of aggregation and join, for all paths: (W1) no agg.Function Consume/ConsumeAsPartial (22 methods) nor groupby.Aggregator.Consume retains its argument, keys or anything derived without a copy; (K1) the string indexing the group table depends on both the flattened key bytes and keyTypes.Lookup(types); (W3) in join, groupby, spill, fuse, sort, merge and zio a value obtained from Read/Peek is neither used after the next Read on the same reader nor allowed to escape without a copy (loop-carried values included); (S3) spill.peeker.read copies nextRecord before advancing the file; (P1) no partial form is a panicking stub; (P2) state that a ConsumeAsPartial loop rebinds per element is initialised inside the loop; (J1) at the kernel call of join.New the parent, key and declared direction of one side come from the same side of the dag.Join on every path; (J2) the optimizer declares a join input sorted only from that side\'s parent under a test of that side\'s key. Does not decide the aggregates\' arithmetic, partial composition, early release on sorted input or join semantics.',
   note='zio.Reader contract (value valid until the next Read on the same reader); reader identity by receiver expression; calls leaving the package do not retain arguments.',
   ref='DESIGN.md §2 C10')
CLAIMS['C12'] = dict(
   technique='who-may-call tables over resolved call sites, lock-state dataflow, critical-section atomicity, dominance / avoid-reachability protocol checks, backward-slice provenance of commit ids',
   text='Decides, for all paths, the protocol conditions that linearizability of lake metadata updates rests on: (W1) the journal entry at+1 is the only commit point and the sets of writers of PutIfNotExists, CommitAt and journal entry objects are closed; (P1) in journal.Store.commit the position and the constraint are read in one read-locked section, every attempt re-loads first, a lost race (os.IsExist) leads to another attempt or an error but never to a nil return, and success invalidates the cached position; (P2) Branch.commit performs tip lookup -> constructor -> commit object -> branch update, with a constraint comparing against the parent captured before config.Commit is overwritten and removal of the commit object on every failure path; (P3) every constructor passed to Branch.commit builds snapshots, paths, patches and the new parent from the retry\'s parent, never from the handle\'s stale Commit; (P4) the constraint key handed to CommitAt is compared before the entry is written; (P5) the position an entry is written at derives from the HEAD read and never from a probe for existing entries; (F1) metadata lookups read the journal HEAD: the time-bounded journal.Store.Lookup has no caller, every table reader calls load() first and load() reads HEAD unconditionally; (L1) journal.Store lock discipline; (N1) names registered last with cleanup. Does not decide linearizability itself, non-atomic file puts, or inter-process cache coherence.',
   note='PutIfNotExists is atomic where supported; closures run under the lock state of the call that invokes them.',
   ref='DESIGN.md §2 C12')
CLAIMS['C13'] = dict(
   technique='who-may-call over resolved call sites, freshness (ownership) analysis of snapshot mutator receivers across two caller levels, constructor-only field writes',
   text='Decides structural conditions of commit immutability and reader isolation: (W1) storage deletions occur only at six frozen sites (vacuum, aborts of never-committed writes, lost-race commit object, pool removal), and Object.Remove / commits.Store.Remove only from their single legitimate callers; (R1) no function of the kernel, optimizer, lake scan operators, vector runtime or lake/data calls a name->commit resolver (witness: the semantic analyzer\'s compile-time resolutions); (M1) every Snapshot mutator call acts on a snapshot that is fresh in that computation, never on one obtained from the store\'s cache; (M2) a lister\'s snapshot is written only at construction; (R2) names are resolved against the journal HEAD, never from the time-bounded cache of journal.Store.Lookup (shared with C12-F1), so a reader started after an acknowledged commit sees it. Does not decide result constancy, cross-process snapshot files or vacuum semantics.',
   note='Interface calls on storage.Engine are resolved by method; freshness is tracked through phis, locals and up to two caller levels.',
   ref='DESIGN.md §2 C13')
CLAIMS['C14'] = dict(
   technique='edge-dominance guards, constant-argument checks, error-flow dominance of commits by writer Close, resolved-callee stable-sort check',
   text='Decides structural conditions of the loaded-minus-deleted model: (V1) Vacuumable offers an object only on the false edge of Exists() on the snapshot of the requested commit; (N1) comparators on the lake path are built with nullsMax=true; (D1) no store to Deleter.KeyPruner; (O1) every commit is reached only after each writer Close / CreateVector returned nil, including calls in loops and inside constructors; (S1) the lister\'s object sort and the comparator\'s index sort are stable; (S2) the Slicer folds min and max over every object of a partition; (W1) the deleter writes the complement of the predicate. Does not decide multiset equality, scan order or metadata accuracy.',
   note='Shares rules with C16 and C17 (decided once).',
   ref='DESIGN.md §2 C14')
CLAIMS['C15'] = dict(
   technique='field read/write-set agreement between view and mutator methods of a type, provenance of commit ids, error-flow dominance',
   text='Decides structural conditions of merge/revert: (K1) each view method of commits.Patch reads every state field the corresponding mutators write, computed from the current method bodies and their same-type helpers; (P3) merge and revert objects are built from the retry\'s parent and never from a patch, snapshot or diff captured outside the retry constructor; (E1) errors of Diff / PatchOfPath / Patch.Revert are returned before a commit object can be produced, and the object is written before the branch moves. The K1 violation found on the original tree (views ignored deletedObjects: double-delete merge corrupts the parent) was reproduced and fixed. Does not decide the set algebra of merge and revert.',
   note='Field sets are computed over Patch methods and their same-type helpers.',
   ref='DESIGN.md §2 C15')
CLAIMS['C17'] = dict(
   technique='must-precede / must-pass-through (dominance and avoid-reachability) on resolved call sites, error-flow dominance, who-may-call',
   text='Decides the order in which durable effects are issued, for all paths: commit object before branch pointer (O1); data objects and vectors durable before the commit that references them (O2); journal entry before HEAD, with HEAD written only by CommitAt and Create (O3); lake magic last and only after the pools store, HEAD before TAIL (O4); pool directory before name with cleanup, name before data on drop (O5); CreateVector always rewrites the vector object instead of trusting an existing one (O6); HEAD treated as a hint (H1 — violated on today\'s tree: genuine known finding, reproduced). Does not decide what a reopened lake sees after a torn non-atomic put, i.e. crash states themselves.',
   note='Program order of storage calls equals durability order.',
   ref='DESIGN.md §2 C17')
CLAIMS['C19'] = dict(
   technique='error-flow analysis with must-report-before-return on failing branches, must-pass-through on the control-message writer, type-table agreement between server writer, client unmarshaler and client scanner, stub detection behind a shared interface',
   text='Decides structural conditions of service/direct agreement: (E1) in all 22 HTTP handlers no error result is dropped and, on every branch where an error is non-nil, every path to a return first reports to the client (w.Error, WriteError, the handler\'s handleError closure or an explicit status); (E2) every path through queryio.Writer.WriteControl writes to the response — violated on today\'s tree for responses without control frames (genuine, reproduced, recorded as a known finding); (E4) the late-error callback of handleQuery writes the in-band error and records it for the status endpoint on every path; (K3) list-valued inputs (slice parameters of the remote implementation, slice fields of api.*Request in handlers) are never read only at a constant index — violated on the original tree by CreatePool/handlePoolPost (only the first sort key crossed the service), reproduced and fixed; (E3) the load request body is a pipe closed with the error of the copy (CloseWithError) and never owned by the ZNG writer, so a failing source cannot end the body cleanly; (K1) every api.Query* message the server writes is bound in the client\'s unmarshaler and handled in the client scanner, and QueryError becomes a returned error; (K2) every lake/api.Interface method of the remote implementation issues a request (the RemoveBranch stub was fixed). Does not decide equality of lake state or output between the two access paths.',
   note='Helpers that take the ResponseWriter report their own errors; deferred cleanup calls are not obligations.',
   ref='DESIGN.md §2 C19')
CLAIMS['C06'] = dict(
   technique='resolved-callee stable-sort check over the value-ordering packages, tie-break shape of the spill merge, signature-based discovery of value-ordering functions with call-graph reachability to the single comparison routine',
   text='Decides structural conditions of sort/merge correctness: (S1) every sort call on the value-ordering path (comparator index sort, group-by release, lister object sort, …) resolves to a stable algorithm, and spill.MergeSort.Less returns `ordinal <` exactly on the branch where the comparator returned 0; (S2) every function of the runtime with signature func(zed.Value, zed.Value) int reaches expr.compareValues / Comparator.Compare (or calls a CompareFn value), so no operator orders values by a second routine; (S3) the spill reader copies a record before advancing its file; (F1) every stand-in the bulk sorter stores into its native int64 key array in place of a real value (null markers, the clamp of uint64 above MaxInt64) is tested for in the tie branch of its less function, so aliased keys fall back to the full comparison. Does not decide that compareValues is a total preorder, that the native fast path agrees with it on non-aliased keys, or spill-invariance of the output.',
   note='Value-ordering functions are recognised by signature.',
   ref='DESIGN.md §2 C06')
CLAIMS['C07'] = dict(
   technique='AST/type-switch analysis with computed case sets against confirmed operator tables, SSA backward slices for per-leg copies and operand order, avoid-reachability for flag pairing',
   text='Decides structural necessary conditions of optimizer soundness: (D1) the default arms of the demand inference over dag.Op and dag.Expr yield demand.All() and the default arm of analyzeSortKeys yields unknown order, so an unlisted or new operator is treated conservatively; (D2) every op placed into parallel paths is a copyOp/copyOps made inside the per-leg loop; (D3) PartialsOut on the legs and PartialsIn on the tail are set on the same paths and guarded against re-splitting; (D4) mergeFilters builds and(first, second); (D5) the operators that pass the sort key through, that end a concurrent path, and that are lifted into legs are exactly the confirmed tables; (D6) Summarize.InputSortDir and isKeyOfSummarize agree that input order is usable only when a grouping key is assigned to the sort-key name and computed by the key or an order-preserving call; (D7) every narrowing case of the demand inference selects every expression-bearing field of its node and a pass-through operator hands the downstream demand upstream; (D8) a predicate taken off the chain by matchFilter is stored into the scan Filter before the shortened chain is used; (D9/N2) the merge that replaces a lifted sort takes its order from Args[0].Order and Reverse together, and a sort is split into per-leg sorts plus a merge only after its null placement (NullsFirst) was consulted — both violated on the original tree (fork | sort -r; sort -nulls first), reproduced and fixed. Does not decide semantic equivalence of the optimized and the analyzed plan, which is a relation between two executions.',
   note='Operator tables confirmed by reading; changing them deliberately requires re-confirmation (the check then reports the changed entry).',
   ref='DESIGN.md §2 C07')
CLAIMS['C08'] = dict(
   technique='lock-state dataflow on the shared lister/slicer, SSA provenance of the merge key, shared optimizer rules',
   text='Decides structural conditions of parallelism independence: (L1/L2/L4) meta.Lister and meta.Slicer state shared by all scatter legs is only touched under their mutex, helpers are requires-held; (D2/D3/D5) legs get copies, partials are paired, and the confirmed sets of operators end a concurrent path or are lifted into legs; (M1) the Merge built by parallelizeSeqScan is keyed on the sort key concurrentPath reports for this path, under needMerge, and Combine is used only when no order is needed; (L3) the Slicer pulls from its shared parent and stashes the result in one critical section; (N1) the merge comparator of the kernel orders nulls as the lake does (nullsMax constant true); (N2/D9) shared with C07: lifted sorts agree with the merge on direction and null placement. Does not decide equality of results across degrees of parallelism or correctness of partial aggregates.',
   note='Shares D2/D3/D5 with C07 (decided by the same code).',
   ref='DESIGN.md §2 C08')
CLAIMS['C09'] = dict(
   technique='edge-dominance of the vectorize decision, loop-shape check of the all-objects guard, panicking-dispatch detection (type-assert chains and unchecked assertions on vector.Any) over the call graph of the auto-vectorized operators',
   text='Decides structural conditions of vector/sequential agreement: (G1) every vectorize() in Optimizer.Vectorize is dominated by a true isScanWithVectors, which returns true only after a loop over a non-empty snapshot in which any object without a vector returns false; (X1) in the functions reachable from the auto-selected vector operators (CountByString, Sum, the vam scanner, the materializer) no dispatch on vector.Any panics for an implementer without a case and no unchecked type assertion is applied to a vector.Any — violated on today\'s tree by the prototype CountByString (two genuine known findings, reproduced); (N1) a function of runtime/vam/op that walks the per-slot Index of a dictionary vector also reads its Nulls mask. Does not decide equality of results between the runtimes.',
   note='Scope by static calls plus dispatch on vector.Any; dispatch on zed.Type/VNG metadata inside the vector cache is constrained by the VNG writer and not decided.',
   ref='DESIGN.md §2 C09')
CLAIMS['C02'] = dict(
   technique='sibling kind-table agreement: case sets of type switches (type-checked AST) against the implementers of the switched interface computed on each run; constant tag sets between encoder and formatter',
   text='Decides the kind-table clause of the ZSON round trip: at each dispatch site of package zson — Formatter.formatValue, formatTypeBody, formatType, formatPrimitive, formatTypeValue (type-value tags), BuildPrimitive, Analyzer.convertValue/convertAny/convertType (over the ZSON AST node kinds that some parser actually constructs) and buildValue (over analyzed value kinds) — every kind of the switched domain has a case, so whatever one side can emit the other can read (103 obligations); (K2) the typedef name tables of both sides (Formatter.saveType: typedefs and permanent; Analyzer.enterTypeDef) are overwritten on every (re)definition, never only when the name is still unbound, so a bare type reference denotes the latest definition on both sides. Does not decide what the text denotes: decorator elision, float/time/IP spelling, quoting, typedef scoping, JSON semantics; those are value-level and out of reach for static analysis.',
   note='The domain of a switch is the set of implementers of its tag interface in the defining package that are instantiated somewhere in the module.',
   ref='DESIGN.md §2 C02')
CLAIMS['C03'] = dict(
   technique='sibling kind-table agreement, constant-vs-type width check, dominance of section writes, source-order call-sequence agreement between Metadata and Emit of every encoder',
   text='Decides structural conditions of the VNG round trip: (K1) NewEncoder covers every complex zed type explicitly or as a primitive column, NewBuilder and the vector cache\'s newShadow cover every vng.Metadata implementer; (B1) MaxDictSize does not exceed what the one-byte selector map can address and the dictionary is abandoned beyond it, the bound being enforced on the dictionary that results from every insert (checked after the insert, or with >= before it); (O1) the metadata stream is ended before its size is taken and sections are written header, metadata, data; (O2) for every encoder, Metadata (which assigns segment offsets) and Emit (which writes bytes) visit the same sub-encoders in the same order. Does not decide statistics-driven encoding choices, null runs, tag vectors or projection results.',
   note='Sub-encoder order is read from the source order of calls in each method.',
   ref='DESIGN.md §2 C03')
CLAIMS['C20'] = dict(
   technique='edge-pruned reachability for the mixin-before-buffer rule, ownership analysis, must-precede on spill writes, constant flag check',
   text='Decides structural conditions of fuse: (M1) in Fuser.Write no path buffers a value whose type is missing from f.types unless Mixin(rec.Type()) ran first, and no path skips the lookup; (W2) buffered values are copies; (O1) stash spills the already buffered values in slice order before the current one and Write buffers in memory only while no spill file exists; (R1) the second pass shapes with ConstShaper(uberSchema.Type(), Cast|Fill|Order). Does not decide the type algebra of agg.merge, the shaper\'s casts or agreement with the fuse() aggregate, i.e. losslessness as such.',
   note='A range loop over a slice visits it in ascending index order.',
   ref='DESIGN.md §2 C20')
NA = {}
for i in range(1, 21):
    pid = 'C%02d' % i
    if pid not in CLAIMS:
        NA[pid] = 'check under construction in this session (static rules designed in DESIGN.md §2, not yet implemented)'

def main():
    checks = []
    for pid in sorted(CLAIMS):
        c = CLAIMS[pid]
        checks.append({
            'property_id': pid,
            'quick_cmd': './check %s quick' % pid,
            'thorough_cmd': './check %s thorough' % pid,
            'evidence_file': '/verif/evidence/%s.json' % pid,
            'replay_cmd_template': 'cat {path}; ./check %s quick' % pid,
            'engine': 'zedcheck',
            'level_claimed': {'category': 'other', 'text': c['text'], 'design_ref': c['ref']},
            'level_note': c['note'],
            'technique': c['technique'],
        })
    m = {
        'version': 1,
        'setup_cmd': 'cd /verif/checker && GOFLAGS=-mod=mod GOPROXY=off GOSUMDB=off GOTOOLCHAIN=local GOWORK=off go build -o ../bin/zedcheck .',
        'hooks': {
            'guard': 'verif',
            'enable': 'no hooks: the checker reads /repo\'s source (go/packages + go/ssa); nothing in /repo is instrumented',
            'baseline_off_cmd': BASE,
            'source_commits': [],
            'add_only': True,
        },
        'engines': [{
            'name': 'zedcheck', 'path': '/verif/checker',
            'serves_properties': sorted(CLAIMS),
            'kind_free_text': 'repository-specific static analyser over the type-checked program and SSA of /repo (x/tools v0.29.0): error-flow, must-pass-through, lock-state, ownership, who-may-call, sibling-table agreement, finite-order table evaluation; fail-closed on unresolved anchors; self-test by source-overlay mutants in the thorough tier',
        }],
        'checks': checks,
        'notes': 'All checks are static (no zed code is executed). Fix commits in /repo are listed in known_findings.json as fixed entries. quick = all rules of the property on the current tree; thorough = the same plus the mutant self-test (each rule must fire on a one-instance-broken overlay of the current source).',
        'not_applicable': [{'property_id': k, 'reason': v} for k, v in sorted(NA.items())],
    }
    json.dump(m, open('MANIFEST.json', 'w'), indent=1)
    print('claimed', len(checks), 'n/a', len(NA))

main()
